module verifharness

go 1.23

require (
	github.com/jmeaster30/vore/libvore v0.0.0
	github.com/jmeaster30/vore/libvore/ast v0.0.0
	github.com/jmeaster30/vore/libvore/bytecode v0.0.0
	github.com/jmeaster30/vore/libvore/engine v0.0.0
	github.com/jmeaster30/vore/libvore/files v0.0.0
	pgregory.net/rapid v1.3.0
)

require (
	github.com/jmeaster30/vore/libvore/algo v0.0.0 // indirect
	github.com/jmeaster30/vore/libvore/ds v0.0.0 // indirect
)

replace (
	github.com/jmeaster30/vore/libvore => /repo/libvore
	github.com/jmeaster30/vore/libvore/algo => /repo/libvore/algo
	github.com/jmeaster30/vore/libvore/ast => /repo/libvore/ast
	github.com/jmeaster30/vore/libvore/bytecode => /repo/libvore/bytecode
	github.com/jmeaster30/vore/libvore/ds => /repo/libvore/ds
	github.com/jmeaster30/vore/libvore/engine => /repo/libvore/engine
	github.com/jmeaster30/vore/libvore/files => /repo/libvore/files
	github.com/jmeaster30/vore/libvore/testutils => /repo/libvore/testutils
)
