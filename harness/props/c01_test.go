package props

import (
	"fmt"
	"strings"
	"testing"
	"time"

	"pgregory.net/rapid"
)

// SpanCase is the replayable form of a model-based case: the source, the text and
// the spans (and variables) the reference semantics demands.
type SpanCase struct {
	Src       string `json:"src"`
	Text      string `json:"text"`
	Want      []Span `json:"want"`
	CheckVars bool   `json:"check_vars"`
	File      bool   `json:"file,omitempty"` // the text is searched as a file (RunFiles, NOTHING)
}

const vmLimitModel = 400_000

var lastSpanCaseSteps int64

// checkSpanCase runs the implementation on the case and returns a non-empty
// signature when it disagrees. discard=true: the VM step limit was hit.
func checkSpanCase(c SpanCase) (sig string, what string, discard bool) {
	v, err, p := CompileSafe(c.Src)
	if p != nil {
		return p.Sig(), "Compile panicked: " + p.Sig(), false
	}
	if err != nil {
		return "compile-error", "generated program does not compile: " + firstLine(err.Error()), false
	}
	res := runTextOrFile(v, c.Text, c.File, vmLimitModel)
	lastSpanCaseSteps = res.Steps
	if res.OverBudget {
		return "", "", true
	}
	if res.Panic != nil {
		return res.Panic.Sig(), "Run panicked: " + res.Panic.Sig(), false
	}
	got := SpansOf(res.Matches)
	if !spansEqual(got, c.Want, false) {
		return "span-mismatch", fmt.Sprintf("spans differ: got %s want %s", fmtSpans(got, false), fmtSpans(c.Want, false)), false
	}
	for i, m := range res.Matches {
		if m.Value != c.Text[c.Want[i].Start:c.Want[i].End] {
			return "value-mismatch", fmt.Sprintf("match %d value %q is not text[%d:%d]", i, m.Value, c.Want[i].Start, c.Want[i].End), false
		}
	}
	if c.CheckVars && !spansEqual(got, c.Want, true) {
		return "var-mismatch", fmt.Sprintf("variables differ: got %s want %s", fmtSpans(got, true), fmtSpans(c.Want, true)), false
	}
	return "", "", false
}

func firstLine(s string) string {
	if i := strings.IndexByte(s, '\n'); i >= 0 {
		return s[:i]
	}
	return s
}

func globalsMap(gs []Global) map[string]Global {
	m := map[string]Global{}
	for _, g := range gs {
		m[g.Name] = g
	}
	return m
}

const modelBudget = 20000

// modelProperty is shared by C01 (spans) and C02 (spans + variables).
func modelProperty(id string, st *Stats, f Features, checkVars bool) func(t *rapid.T) {
	return func(t *rapid.T) {
		depth := rapid.IntRange(1, 3).Draw(t, "depth")
		globals, body := GenBodyProgram(t, f, depth)
		if caps := captureNames(body); len(caps) > 0 && rapid.IntRange(0, 5).Draw(t, "shadow") == 0 {
			// an (unused) definition with the name of a capture of the command: inside
			// the command the name is the capture, a later mention a back-reference
			globals = append(globals, Global{Name: rapid.SampledFrom(caps).Draw(t, "shadowed"), Body: []*Node{{K: KLit, S: "q"}}})
			st.Count("capture_named_like_a_definition")
		}
		replace := rapid.IntRange(0, 4).Draw(t, "replace") == 0
		text, source := GenText(t, globals, body, true, 14)
		prog := &Program{Globals: globals, Commands: []Command{{Amount: []string{"all"}, Body: body}}}
		if replace {
			prog.Commands[0].Replace = true
			prog.Commands[0].With = []WithItem{{Kind: 0, S: "x"}}
		}
		src := prog.Source()
		st.Eval()
		mr := ModelFindAll(globals, body, text, modelBudget)
		if mr.OverBudget {
			st.Count("discarded_budget")
			return
		}
		if mr.DontCare {
			st.Count("discarded_dontcare")
			return
		}
		c := SpanCase{Src: src, Text: text, Want: mr.Spans, CheckVars: checkVars}
		SetInflight(func() string { return jsonStr(Failure{Property: id, Kind: "spans", Case: c}) })
		sig, what, discard := checkSpanCase(c)
		ClearInflight()
		if discard {
			st.Count("discarded_vm_budget")
			return
		}
		if sig != "" {
			Fail(t, Failure{Property: id, Kind: "spans", What: fmt.Sprintf("%s on %q: %s", src, text, what), Case: c, Sig: sig})
		}
		st.Count("compared")
		st.Max("max_vm_steps", lastSpanCaseSteps)
		st.Max("max_vm_steps_per_model_step_x100", lastSpanCaseSteps*100/int64(max(mr.Steps, 1)))
		st.Count("text_" + source)
		if len(mr.Spans) > 0 {
			st.Count("with_match")
		}
		if mr.Backtracks > 0 {
			st.Count("with_backtracking")
		}
		if replace {
			st.Count("replace_cmd")
		}
		nontrivial := false
		if checkVars {
			// C02: a binding made on a path that was later abandoned, or a rebinding
			nontrivial = len(mr.Spans) > 0 && (mr.AbandonedCap > 0 || mr.Rebinds > 0)
			if mr.AbandonedCap > 0 {
				st.Count("abandoned_binding")
			}
			if mr.Rebinds > 0 {
				st.Count("rebinding")
			}
			for _, sp := range mr.Spans {
				if len(sp.Nested) > 0 {
					st.Count("named_loop_variables")
					break
				}
			}
		} else {
			nontrivial = len(mr.Spans) > 0 && mr.Backtracks > 0
		}
		if nontrivial {
			st.NonTrivial(src+"\x00"+text, func() any {
				return map[string]any{"src": src, "text": text, "spans": fmtSpans(mr.Spans, checkVars), "model_backtracks": mr.Backtracks}
			})
		}

		// oracle 2: Go regexp on the regular subset
		if !checkVars && !hasCR(text) && isASCII(text) {
			gm := globalsMap(globals)
			seq := &Node{K: KSeq, Kids: body}
			if re, ok := ToGoRegex(seq, gm); ok {
				want2, err := GoRegexFindAll(re, text)
				if err != nil {
					t.Fatalf("harness: bad Go regex %q from %q: %v", re, src, err)
				}
				st.Count("goregex_compared")
				if !spansEqual(want2, mr.Spans, false) {
					// second opinion: the same translation with regexp/syntax's alternation
					// factoring switched off (two go1.23 factoring bugs were met this way)
					re2, _ := ToGoRegexSafe(seq, gm)
					want3, err3 := GoRegexFindAll(re2, text)
					if err3 == nil && spansEqual(want3, mr.Spans, false) {
						st.Count("goregex_factoring_bug_sidestepped")
					} else {
						// the two oracles disagree: a harness error, never a verdict about vore
						t.Fatalf("HARNESS oracle disagreement %q (re %q) on %q: model %s go %s", src, re, text, fmtSpans(mr.Spans, false), fmtSpans(want2, false))
					}
				}
			}
		}
	}
}

func isASCII(s string) bool {
	for i := 0; i < len(s); i++ {
		if s[i] >= 0x80 {
			return false
		}
	}
	return true
}

func TestC01(t *testing.T) {
	seedNote(t)
	StartWatchdog("C01", 45*time.Second)
	st := NewStats("C01", "model", "programs from the pattern IR (all core constructs, depth<=3) x texts (random / sampled from the pattern / mutated), as find all and replace all; reference matcher (and Go regexp on the regular subset) vs Run; non-trivial = >=1 match and the reference evaluation abandoned >=1 alternative or iteration; distinct by (source,text)")
	defer st.Write()
	rapid.Check(t, modelProperty("C01", st, AllModelFeatures, false))
}

func TestC02(t *testing.T) {
	seedNote(t)
	StartWatchdog("C02", 45*time.Second)
	st := NewStats("C02", "model", "programs biased to `= name` under or / optional and repeated groups / subroutines / set-patterns with back-references x texts; reference environment at the successful continuation vs Match.Variables; non-trivial = >=1 match and a binding completed on a path later abandoned, or a name bound more than once; distinct by (source,text)")
	defer st.Write()
	f := AllModelFeatures
	f.CapBias = true
	f.NamedLoops = true
	rapid.Check(t, modelProperty("C02", st, f, true))
}

// TestC01Named: naming a loop (`named L`) changes what is reported in the variables,
// not what is matched: for loops whose body cannot match nothing, the spans of the
// named form are those the reference matcher gives for the unnamed form.
func TestC01Named(t *testing.T) {
	seedNote(t)
	StartWatchdog("C01", 60*time.Second)
	st := NewStats("C01", "named", "exhaustive over loop heads {at least 1, at least 2, between 1 and 3, between 2 and 3, at most 2} x {greedy, fewest} x bodies {digit, 'a', in 'a', '1', ('a' or ('1' digit))} x continuation {nothing, 'x', line end} with the loop named, on all texts of length <= 4 over {1, a, x}; oracle: the reference matcher on the same program without the name; non-trivial = at least one match; distinct by (program, text)")
	st.Exhaustive = true
	defer st.Write()
	type head struct {
		src      string
		min, max int
	}
	heads := []head{{"at least 1", 1, -1}, {"at least 2", 2, -1}, {"between 1 and 3", 1, 3}, {"between 2 and 3", 2, 3}, {"at most 2", 0, 2}}
	bodies := []struct {
		src  string
		node *Node
	}{
		{"digit", &Node{K: KClass, Class: "digit"}},
		{"'a'", &Node{K: KLit, S: "a"}},
		{"in 'a', '1'", &Node{K: KIn, Items: []Item{{Kind: 0, S: "a"}, {Kind: 0, S: "1"}}}},
		{"('a' or ('1' digit))", &Node{K: KOr, Kids: []*Node{{K: KLit, S: "a"}, {K: KSeq, Kids: []*Node{{K: KLit, S: "1"}, {K: KClass, Class: "digit"}}}}}},
	}
	conts := []struct {
		src  string
		node *Node
	}{{"", nil}, {"'x'", &Node{K: KLit, S: "x"}}, {"line end", &Node{K: KAnchor, Class: "line end"}}}
	var texts []string
	var gen func(prefix string, n int)
	gen = func(prefix string, n int) {
		texts = append(texts, prefix)
		if n == 0 {
			return
		}
		for _, c := range []string{"1", "a", "x"} {
			gen(prefix+c, n-1)
		}
	}
	gen("", 4)
	for _, h := range heads {
		for _, fewest := range []bool{false, true} {
			for _, b := range bodies {
				for _, k := range conts {
					loop := &Node{K: KLoop, Min: h.min, Max: h.max, Fewest: fewest, Body: b.node}
					body := []*Node{loop}
					src := "find all " + h.src + " " + b.src
					if fewest {
						src += " fewest"
					}
					src += " named L"
					if k.node != nil {
						body = append(body, k.node)
						src += " " + k.src
					}
					for _, text := range texts {
						mr := ModelFindAll(nil, body, text, modelBudget)
						if mr.OverBudget {
							t.Fatalf("HARNESS: reference matcher over budget on %s / %q", src, text)
						}
						c := SpanCase{Src: src, Text: text, Want: mr.Spans}
						st.Eval()
						sig, what, discard := checkSpanCase(c)
						if discard {
							st.Count("discarded_vm_budget")
							continue
						}
						if sig == "compile-error" {
							t.Fatalf("HARNESS: %s: %s", src, what)
						}
						if sig != "" {
							Fail(t, Failure{Property: "C01", Kind: "spans", What: src + " on " + fmt.Sprintf("%q", text) + ": " + what, Case: c, Sig: sig})
						}
						if len(mr.Spans) > 0 {
							st.NonTrivial(src+"\x00"+text, func() any { return map[string]any{"src": src, "text": text, "matches": len(mr.Spans)} })
						}
					}
				}
			}
		}
	}
}
