package props

import (
	"fmt"
	"testing"
	"time"
)

// Small-scope exhaustive part of C01: every program of a small grammar on every
// short text, against the reference matcher (and Go regexp where applicable).

func c01EnumAtoms() []*Node {
	return []*Node{
		{K: KLit, S: "a"},
		{K: KLit, S: "b"},
		{K: KLit, S: "ab"},
		{K: KLit, S: "a", Not: true},
		{K: KClass, Class: "any"},
		{K: KIn, Items: []Item{{Kind: 0, S: "a"}, {Kind: 0, S: "ab"}}},
		{K: KIn, Not: true, Items: []Item{{Kind: 0, S: "b"}}},
		{K: KAnchor, Class: "line start"},
		{K: KAnchor, Class: "file end"},
		{K: KAnchor, Class: "line end", Not: true},
	}
}

type c01Head struct {
	min, max int
	fewest   bool
}

func c01EnumHeads() []c01Head {
	var hs []c01Head
	for _, f := range []bool{false, true} {
		hs = append(hs, c01Head{0, 1, f}, c01Head{0, -1, f}, c01Head{1, -1, f}, c01Head{0, 2, f}, c01Head{1, 2, f}, c01Head{2, 3, f})
	}
	return append(hs, c01Head{2, 2, false})
}

// c01EnumBodies: level 1 = atoms, loops over atoms, or / seq pairs of atoms, and a
// capture of an atom followed by its back-reference; level 2 = loops over level 1
// and pairs (level 1, atom).
func c01EnumBodies(depth int) [][]*Node {
	atoms := c01EnumAtoms()
	heads := c01EnumHeads()
	var l1 []*Node
	l1 = append(l1, atoms...)
	for _, a := range atoms {
		for _, h := range heads {
			l1 = append(l1, &Node{K: KLoop, Min: h.min, Max: h.max, Fewest: h.fewest, Body: a})
		}
	}
	for _, a := range atoms[:7] {
		for _, b := range atoms[:7] {
			l1 = append(l1, &Node{K: KOr, Kids: []*Node{a, b}})
		}
	}
	var out [][]*Node
	for _, x := range l1 {
		out = append(out, []*Node{x})
	}
	if depth < 2 {
		return out
	}
	for _, x := range l1 {
		for _, a := range atoms[:5] {
			out = append(out, []*Node{x, a})
			out = append(out, []*Node{a, x})
		}
		// capture + back-reference, capture under alternation
		out = append(out, []*Node{{K: KCap, S: "v", Body: x}, {K: KRef, S: "v"}})
		out = append(out, []*Node{{K: KOr, Kids: []*Node{{K: KSeq, Kids: []*Node{{K: KCap, S: "v", Body: x}, {K: KLit, S: "b"}}}, {K: KLit, S: "a"}}}})
		if x.K != KLoop {
			for _, h := range heads {
				out = append(out, []*Node{{K: KLoop, Min: h.min, Max: h.max, Fewest: h.fewest, Body: x}})
				out = append(out, []*Node{{K: KLoop, Min: h.min, Max: h.max, Fewest: h.fewest, Body: x}, {K: KLit, S: "b"}})
			}
		} else if x.Min <= 1 {
			// nested loops (both min <= 1 keeps the unrolled code small)
			for _, h := range heads[:10] {
				if h.min <= 1 {
					out = append(out, []*Node{{K: KLoop, Min: h.min, Max: h.max, Fewest: h.fewest, Body: x}, {K: KLit, S: "b"}})
				}
			}
		}
	}
	if depth < 3 {
		return out
	}
	// level 3: every level-2 program as a group under every loop head, alone and
	// followed by 'b' (skipping what would unroll to more than ~12 copies)
	level2 := out
	for _, body := range level2 {
		grp := &Node{K: KSeq, Kids: body}
		inner := 1
		for _, n := range body {
			if n.K == KLoop {
				inner *= n.Min + 1
				if n.Body.K == KLoop {
					inner *= n.Body.Min + 1
				}
			}
		}
		hasCap := false
		for _, n := range body {
			if n.K == KCap || (n.K == KOr && len(n.Kids) > 0 && n.Kids[0].K == KSeq) {
				hasCap = true
			}
		}
		for _, h := range heads {
			if inner*(h.min+1) > 12 {
				continue
			}
			if hasCap && (h.min > 0 || h.max == 0) {
				continue // a capture under an unrolled loop is a name clash (section 2)
			}
			out = append(out, []*Node{{K: KLoop, Min: h.min, Max: h.max, Fewest: h.fewest, Body: grp}})
			out = append(out, []*Node{{K: KLoop, Min: h.min, Max: h.max, Fewest: h.fewest, Body: grp}, {K: KLit, S: "b"}})
		}
	}
	return out
}

func c01EnumTexts() []string {
	var texts []string
	for _, t := range allStrings("ab", 1, 4) {
		texts = append(texts, t)
	}
	return append(texts, "a\nb", "ab\n", "\nab", "aab\nab")
}

func c01Enumerate(t *testing.T, part string, stride int) { c01EnumerateDepth(t, part, stride, 2) }

func c01EnumerateDepth(t *testing.T, part string, stride int, depth int) {
	seedNote(t)
	StartWatchdog("C01", 60*time.Second)
	nshards := envInt("VERIF_NSHARDS", 1)
	shardIdx := envInt("VERIF_SHARD_INDEX", 0)
	texts := c01EnumTexts()
	kind := "bounded exhaustive: every program"
	if stride > 1 {
		kind = fmt.Sprintf("every %dth program of the enumeration of all programs", stride)
	}
	st := NewStats("C01", part, kind+fmt.Sprintf(" `find all P` with P from a small grammar (10 atoms incl. not / in / not in / anchors, 13 loop heads greedy and fewest, or-pairs; then loops over those, pairs with an atom on either side, capture + back-reference, capture under alternation) x all %d texts (every string of length 1..4 over {a,b} and four multi-line texts); oracle: reference matcher (spans and variables) and Go regexp on the regular subset; non-trivial = >= 1 match after the reference abandoned an alternative or iteration; distinct by (source,text)", len(texts)))
	st.Exhaustive = stride == 1
	defer st.Write()
	bodies := c01EnumBodies(depth)
	for i, body := range bodies {
		if i%stride != 0 || (i/stride)%nshards != shardIdx {
			continue
		}
		src := FindAll(body...).Source()
		var re string
		reOK := false
		if r, ok := ToGoRegex(&Node{K: KSeq, Kids: body}, nil); ok {
			re, reOK = r, true
		}
		for _, text := range texts {
			st.Eval()
			mr := ModelFindAll(nil, body, text, modelBudget)
			if mr.OverBudget || mr.DontCare {
				st.Count("discarded")
				continue
			}
			c := SpanCase{Src: src, Text: text, Want: mr.Spans, CheckVars: true}
			SetInflight(func() string { return jsonStr(Failure{Property: "C01", Kind: "spans", Case: c}) })
			sig, what, discard := checkSpanCase(c)
			ClearInflight()
			if discard {
				st.Count("discarded_vm_budget")
				continue
			}
			if sig == "compile-error" {
				t.Fatalf("HARNESS: %s: %s", src, what)
			}
			if sig != "" {
				Fail(t, Failure{Property: "C01", Kind: "spans", What: fmt.Sprintf("%s on %q: %s", src, text, what), Case: c, Sig: sig})
			}
			if reOK {
				want2, err := GoRegexFindAll(re, text)
				if err != nil {
					t.Fatalf("HARNESS: bad Go regex %q from %q: %v", re, src, err)
				}
				st.Count("goregex_compared")
				if !spansEqual(want2, mr.Spans, false) {
					t.Fatalf("HARNESS oracle disagreement %q (re %q) on %q: model %s go %s", src, re, text, fmtSpans(mr.Spans, false), fmtSpans(want2, false))
				}
			}
			if len(mr.Spans) > 0 && mr.Backtracks > 0 {
				st.NonTrivial(src+"\x00"+text, func() any { return map[string]any{"src": src, "text": text, "spans": fmtSpans(mr.Spans, true)} })
			}
		}
	}
	st.Add("programs_total", int64(len(bodies)))
}

// TestC01Enum: the complete enumeration (thorough tier).
func TestC01Enum(t *testing.T) { c01Enumerate(t, "enum", 1) }

// TestC01Enum3: level 3 (every level-2 program under every loop head); thorough tier.
func TestC01Enum3(t *testing.T) {
	c01EnumerateDepth(t, "enum3", envInt("VERIF_C01_STRIDE3", 1), 3)
}

// TestC01EnumSample: every 8th program (quick tier).
func TestC01EnumSample(t *testing.T) { c01Enumerate(t, "enumsample", envInt("VERIF_C01_STRIDE", 8)) }
