package props

import (
	"encoding/json"
	"fmt"
	"os"
	"path/filepath"
	"strings"
	"testing"
	"time"

	"github.com/jmeaster30/vore/libvore"
	"github.com/jmeaster30/vore/libvore/engine"
	"pgregory.net/rapid"
)

// RunCase: a source and a text; used by the invariant (C03) and crash (C09) replays.
type RunCase struct {
	Src   string `json:"src"`
	Text  string `json:"text"`
	ASCII bool   `json:"ascii"`
	Limit int64  `json:"limit,omitempty"` // VM step limit (0 = the check's default)
	File  bool   `json:"file,omitempty"`  // the text is searched as a file (RunFiles, mode NOTHING)
}

// runTextOrFile runs v on the text, in memory or (asFile) from a scratch file.
func runTextOrFile(v *libvore.Vore, text string, asFile bool, limit int64) RunResult {
	if !asFile {
		return RunSafe(v, text, limit)
	}
	dir, err := os.MkdirTemp(scratchDir(), "c03f-")
	if err != nil {
		panic(err)
	}
	defer os.RemoveAll(dir)
	path := filepath.Join(dir, "input.txt")
	os.WriteFile(path, []byte(text), 0o644)
	return RunFilesSafe(v, []string{path}, engine.NOTHING, limit)
}

const vmLimitInvariant = 30_000

// stringLeaves collects every string leaf of a variables map (recursively).
func stringLeaves(v any, out *[]string) {
	switch x := v.(type) {
	case string:
		*out = append(*out, x)
	case map[string]any:
		for _, e := range x {
			stringLeaves(e, out)
		}
	}
}

// matchInvariants re-derives everything C03 claims about a match list from the
// text alone. One search command per program.
func matchInvariants(text string, ms engine.Matches, ascii bool) (sig, what string) {
	prevEnd := 0
	for i, m := range ms {
		s, e := m.Offset.Start, m.Offset.End
		if !(0 <= s && s < e && e <= len(text)) {
			return "bad-offsets", fmt.Sprintf("match %d: offsets [%d,%d) not within 0 <= start < end <= %d", i, s, e, len(text))
		}
		if m.Value != text[s:e] {
			return "value-not-slice", fmt.Sprintf("match %d: value %q != text[%d:%d] %q", i, m.Value, s, e, text[s:e])
		}
		if i > 0 && s < prevEnd {
			return "overlap-or-order", fmt.Sprintf("match %d starts at %d before the end %d of the previous match", i, s, prevEnd)
		}
		prevEnd = e
		if i == 0 {
			if m.MatchNumber < 1 {
				return "match-number", fmt.Sprintf("first match has MatchNumber %d", m.MatchNumber)
			}
		} else if m.MatchNumber != ms[i-1].MatchNumber+1 {
			return "match-number", fmt.Sprintf("match %d has MatchNumber %d after %d", i, m.MatchNumber, ms[i-1].MatchNumber)
		}
		lineOf := func(o int) int { return 1 + strings.Count(text[:o], "\n") }
		colOf := func(o int) int { return o - strings.LastIndex(text[:o], "\n") }
		if m.Line.Start != lineOf(s) || m.Line.End != lineOf(e) {
			return "line", fmt.Sprintf("match %d [%d,%d): lines %d-%d, expected %d-%d", i, s, e, m.Line.Start, m.Line.End, lineOf(s), lineOf(e))
		}
		if ascii && (m.Column.Start != colOf(s) || m.Column.End != colOf(e)) {
			return "column", fmt.Sprintf("match %d [%d,%d): columns %d-%d, expected %d-%d", i, s, e, m.Column.Start, m.Column.End, colOf(s), colOf(e))
		}
		if m.Variables.Value != nil {
			var leaves []string
			stringLeaves(m.Variables.ToGo(), &leaves)
			for _, l := range leaves {
				if !strings.Contains(m.Value, l) {
					return "variable-not-substring", fmt.Sprintf("match %d value %q: variable value %q is not a substring", i, m.Value, l)
				}
			}
		}
	}
	return "", ""
}

func checkInvariantCase(c RunCase) (sig, what string, discard bool, ms engine.Matches) {
	v, err, p := CompileSafe(c.Src)
	if p != nil {
		return p.Sig(), "Compile panicked: " + p.Sig(), false, nil
	}
	if err != nil {
		return "compile-error", "generated program does not compile: " + firstLine(err.Error()), false, nil
	}
	limit := int64(vmLimitInvariant)
	if c.Limit > 0 {
		limit = c.Limit
	}
	res := runTextOrFile(v, c.Text, c.File, limit)
	if res.OverBudget {
		return "", "", true, nil
	}
	if res.Panic != nil {
		return res.Panic.Sig(), "Run panicked: " + res.Panic.Sig(), false, nil
	}
	sig, what = matchInvariants(c.Text, res.Matches, c.ASCII)
	return sig, what, false, res.Matches
}

func init() {
	registerReplay("invariants", func(raw json.RawMessage) (string, string) {
		var c RunCase
		if err := json.Unmarshal(raw, &c); err != nil {
			return "bad-replay-file", err.Error()
		}
		sig, what, _, _ := checkInvariantCase(c)
		return sig, what
	})
}

var smallRegexes = []string{
	`a+`, `(a|b)c?`, `[a-c]+\d`, `(?<w>[ab]+) \k<w>`, `^a.*$`, `(a)(b)?\1`, `\s+`, `[^ab]+`, `a{1,2}b`, `(?:ab)+?b`, `\D\d`, `\bab`,
}

var multilinePieces = []string{"a", "b", "ab", "c", "A", "0", "7", " ", "\n", "\n", "\n", "_", "-", "\t", "aa", "abc", "\r\n"}

func genWideProgram(t *rapid.T, multiline bool) (src string, text string, features map[string]bool) {
	features = map[string]bool{}
	f := AllModelFeatures
	f.Wide = true
	if rapid.IntRange(0, 2).Draw(t, "capbias") == 0 {
		// captures under alternation, in loops, in (nested) named loops
		f.CapBias, f.NamedLoops = true, true
		features["capture_biased"] = true
	}
	depth := rapid.IntRange(1, 3).Draw(t, "depth")
	globals, body := GenBodyProgram(t, f, depth)
	if rapid.IntRange(0, 5).Draw(t, "addregex") == 0 {
		re := rapid.SampledFrom(smallRegexes).Draw(t, "regex")
		body = append(body, &Node{K: KRegex, S: re})
		features["regex"] = true
	}
	cmd := Command{Amount: []string{"all"}, Body: body}
	if rapid.IntRange(0, 3).Draw(t, "replace") == 0 {
		cmd.Replace = true
		cmd.With = []WithItem{{Kind: 0, S: "<"}, {Kind: 1, S: "value"}, {Kind: 0, S: ">"}}
		features["replace"] = true
	}
	switch rapid.IntRange(0, 9).Draw(t, "amount") {
	case 0:
		cmd.Amount = []string{"skip", "1"}
	case 1:
		cmd.Amount = []string{"last", "2"}
	case 2:
		cmd.Amount = []string{"skip", "1", "take", "3"}
	}
	prog := &Program{Globals: globals, Commands: []Command{cmd}}
	src = prog.Source()
	var walk func(n *Node)
	walk = func(n *Node) {
		if n == nil {
			return
		}
		switch {
		case n.K == KWhole:
			features["whole"] = true
		case n.K == KLoop && n.Name != "":
			features["named_loop"] = true
		case n.K == KCap:
			features["capture"] = true
		}
		for _, k := range n.Kids {
			walk(k)
		}
		walk(n.Body)
	}
	for _, n := range body {
		walk(n)
	}
	if multiline {
		base, _ := GenText(t, globals, body, true, 16)
		parts := rapid.SliceOfN(rapid.SampledFrom(multilinePieces), 0, 8).Draw(t, "mltext")
		extra := SampleFromPattern(t, globals, body)
		text = strings.Join(parts, "") + base + "\n" + extra
		if len(text) > 40 {
			text = text[:40]
		}
	} else {
		text, _ = GenText(t, globals, body, true, 16)
	}
	return
}

func TestC03(t *testing.T) {
	seedNote(t)
	StartWatchdog("C03", 60*time.Second)
	st := NewStats("C03", "invariants", "widest program generator (core constructs + whole file/line/word, named loops, empty literals, regex literals, replace commands, skip/last clauses) x multi-line ASCII texts; every reported match re-derived from the text (slice, order, numbering, line, column, variables are substrings); non-trivial = >=2 matches and a match starting on line >=2 or carrying a variable; distinct by (source,text)")
	defer st.Write()
	rapid.Check(t, func(t *rapid.T) {
		src, text, features := genWideProgram(t, true)
		ascii := isASCII(text)
		c := RunCase{Src: src, Text: text, ASCII: ascii}
		st.Eval()
		SetInflight(func() string { return jsonStr(Failure{Property: "C03", Kind: "invariants", Case: c}) })
		sig, what, discard, ms := checkInvariantCase(c)
		ClearInflight()
		if discard {
			st.Count("discarded_vm_budget")
			return
		}
		if sig == "compile-error" {
			t.Fatalf("HARNESS: %s: %s", src, what)
		}
		if sig != "" {
			Fail(t, Failure{Property: "C03", Kind: "invariants", What: fmt.Sprintf("%s on %q: %s", src, text, what), Case: c, Sig: sig})
		}
		st.Count("checked")
		st.Add("matches_checked", int64(len(ms)))
		for k := range features {
			st.Count("feature_" + k)
		}
		withVar, line2 := false, false
		for _, m := range ms {
			if m.Variables.Value != nil && len(m.Variables.Value) > 0 {
				withVar = true
			}
			if m.Line.Start >= 2 {
				line2 = true
			}
		}
		if len(ms) >= 1 {
			st.Count("with_match")
		}
		if len(ms) >= 2 && (withVar || line2) {
			st.NonTrivial(src+"\x00"+text, func() any {
				return map[string]any{"src": src, "text": text, "matches": len(ms)}
			})
		}
	})
}
