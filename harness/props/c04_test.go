package props

import (
	"encoding/json"
	"fmt"
	"reflect"
	"strings"
	"testing"
	"time"

	"github.com/jmeaster30/vore/libvore/engine"
	"pgregory.net/rapid"
)

// WindowCase: globals + body tokens (rendered), a text and whether the replace
// form is used. The replay recomputes `all` and every clause.
type WindowCase struct {
	Prefix  string `json:"prefix"` // rendered `set ... to pattern` definitions (may be empty)
	Body    string `json:"body"`   // rendered body
	Text    string `json:"text"`
	Replace bool   `json:"replace"`
}

const vmLimitWindow = 60_000

func (c WindowCase) source(clause string) string {
	cmd := "find"
	tail := ""
	if c.Replace {
		cmd = "replace"
		// the built-in variable and a transform that reads matchNumber from its environment
		tail = " with 'X' matchNumber wnumzz"
	}
	src := cmd + " " + clause + " " + c.Body + tail
	if c.Replace {
		src = "set wnumzz to transform return '#' + matchNumber * 3 end " + src
	}
	if c.Prefix != "" {
		src = c.Prefix + " " + src
	}
	return src
}

func runClause(c WindowCase, clause string) (recs []MatchRec, sig, what string, discard bool) {
	src := c.source(clause)
	v, err, p := CompileSafe(src)
	if p != nil {
		return nil, p.Sig(), "Compile panicked on " + src + ": " + p.Sig(), false
	}
	if err != nil {
		return nil, "compile-error", src + ": " + firstLine(err.Error()), false
	}
	res := RunSafe(v, c.Text, vmLimitWindow)
	if res.OverBudget {
		return nil, "", "", true
	}
	if res.Panic != nil {
		return nil, res.Panic.Sig(), "Run panicked on " + src + ": " + res.Panic.Sig(), false
	}
	return RecsOf(res.Matches), "", "", false
}

func window(a []MatchRec, lo, hi int) []MatchRec {
	if lo > len(a) {
		lo = len(a)
	}
	if hi > len(a) {
		hi = len(a)
	}
	if lo > hi {
		lo = hi
	}
	return a[lo:hi]
}

func recsEqual(a, b []MatchRec) bool {
	if len(a) != len(b) {
		return false
	}
	for i := range a {
		if !reflect.DeepEqual(a[i], b[i]) {
			return false
		}
	}
	return true
}

func fmtRecs(a []MatchRec) string {
	parts := []string{}
	for _, r := range a {
		s := fmt.Sprintf("#%d[%d,%d)%q", r.MatchNumber, r.Start, r.End, r.Value)
		if r.HasRepl {
			s += "->" + fmt.Sprintf("%q", r.Repl)
		}
		parts = append(parts, s)
	}
	return "{" + strings.Join(parts, " ") + "}"
}

type windowStats struct {
	clauses    int
	properWins int
	lenA       int
}

// checkWindowCase compares every amount clause with the slice of `all`.
func checkWindowCase(c WindowCase) (sig, what string, discard bool, ws windowStats) {
	all, sig, what, discard := runClause(c, "all")
	if sig != "" || discard {
		return sig, what, discard, ws
	}
	n := len(all)
	ws.lenA = n
	type cl struct {
		text   string
		lo, hi int
	}
	var clauses []cl
	for k := 0; k <= n+2; k++ {
		if k >= 1 {
			clauses = append(clauses, cl{fmt.Sprintf("top %d", k), 0, k})
			lo := n - k
			if lo < 0 {
				lo = 0
			}
			clauses = append(clauses, cl{fmt.Sprintf("last %d", k), lo, n})
		}
		clauses = append(clauses, cl{fmt.Sprintf("take %d", k), 0, k})
		clauses = append(clauses, cl{fmt.Sprintf("skip %d", k), k, n})
		for tk := 0; tk <= n+2; tk++ {
			clauses = append(clauses, cl{fmt.Sprintf("skip %d take %d", k, tk), k, k + tk})
		}
	}
	// amounts far beyond any number of matches (up to the largest integer the parser
	// accepts): the window is what the formula says, clipped to A
	for _, h := range []int{1<<31 - 1, 1 << 31, 1 << 32, 1 << 62, 1<<63 - 2, 1<<63 - 1} {
		clauses = append(clauses, cl{fmt.Sprintf("top %d", h), 0, n}, cl{fmt.Sprintf("take %d", h), 0, n}, cl{fmt.Sprintf("last %d", h), 0, n}, cl{fmt.Sprintf("skip %d", h), n, n})
		for _, k := range []int{0, 1, n} {
			if k <= n {
				clauses = append(clauses, cl{fmt.Sprintf("skip %d take %d", k, h), k, n})
			}
			clauses = append(clauses, cl{fmt.Sprintf("skip %d take %d", h, k), n, n})
		}
	}
	// zero-padded amounts are decimal numbers (`take 010` takes ten)
	for _, k := range []int{8, 9, 10, 12} {
		clauses = append(clauses, cl{fmt.Sprintf("take 0%d", k), 0, k}, cl{fmt.Sprintf("top 00%d", k), 0, k}, cl{fmt.Sprintf("skip 0%d", k), k, n},
			cl{fmt.Sprintf("last 0%d", k), max(n-k, 0), n}, cl{fmt.Sprintf("skip 00%d take 0%d", k-8, k), k - 8, 2*k - 8})
	}
	for _, q := range clauses {
		got, sig, what, discard := runClause(c, q.text)
		if discard {
			return "", "", true, ws
		}
		if sig != "" {
			return sig, what, false, ws
		}
		want := window(all, q.lo, q.hi)
		ws.clauses++
		if len(want) > 0 && len(want) < n {
			ws.properWins++
		}
		if !recsEqual(got, want) {
			return "window-mismatch", fmt.Sprintf("`%s` on %q: got %s, want A[%d:%d] = %s (A = %s)", c.source(q.text), c.Text, fmtRecs(got), q.lo, q.hi, fmtRecs(want), fmtRecs(all)), false, ws
		}
	}
	return "", "", false, ws
}

func init() {
	registerReplay("window", func(raw json.RawMessage) (string, string) {
		var c WindowCase
		if err := json.Unmarshal(raw, &c); err != nil {
			return "bad-replay-file", err.Error()
		}
		sig, what, _, _ := checkWindowCase(c)
		return sig, what
	})
}

var repetitiveBodies = []string{"'aa'", "'a' 'a'", "at least 1 'a'", "at most 2 'a' 'b'", "in 'a', 'b'", "'ab' or 'a'", "maybe 'a' 'b'", "letter", "at least 2 any fewest", "at most 3 digit", "maybe 'x' maybe 'y'", "'a' = v v"}
var repetitiveTexts = []string{"aaaa", "aaaaa", "ababab", "aabbaabb", "a1 a2 a3", "xyxxy", "abab\nabab", "12 345 6", "aaa\naa", "aaaaaaaaaaaaa", "ab ab ab ab ab\nab ab ab ab ab ab", "a1 a2 a3 a4 a5 a6 a7 a8 a9 a0 b1 b2"}

func TestC04(t *testing.T) {
	seedNote(t)
	StartWatchdog("C04", 60*time.Second)
	st := NewStats("C04", "windows", "(body, text) pairs from the C01 generator (plus overlap-capable bodies on repetitive texts) as find and as replace .. with 'X' matchNumber and a transform reading matchNumber; every clause top/take/skip/skip-take/last with s,t,n in [0,|A|+2] compared field by field with the slice of `all`; non-trivial = |A|>=2 and a clause whose expected window is a proper non-empty part of A; distinct by (body,text,replace)")
	defer st.Write()
	_ = engine.NOTHING
	rapid.Check(t, func(t *rapid.T) {
		var c WindowCase
		if rapid.IntRange(0, 3).Draw(t, "handmade") == 0 {
			c.Body = rapid.SampledFrom(repetitiveBodies).Draw(t, "hbody")
			c.Text = rapid.SampledFrom(repetitiveTexts).Draw(t, "htext")
			if rapid.Bool().Draw(t, "hmix") {
				c.Text += GenRandomText(t, 3, false)
			}
		} else {
			depth := rapid.IntRange(1, 2).Draw(t, "depth")
			globals, body := GenBodyProgram(t, AllModelFeatures, depth)
			gt := []string{}
			for _, g := range globals {
				gt = append(gt, g.Tokens()...)
			}
			c.Prefix = strings.Join(gt, " ")
			c.Body = strings.Join(bodyTokens(body), " ")
			base, _ := GenText(t, globals, body, true, 8)
			if rapid.IntRange(0, 3).Draw(t, "fromsamples") != 0 {
				// several independent samples of the pattern: usually several matches
				var parts []string
				for i := rapid.IntRange(2, 4).Draw(t, "nsamples"); i > 0; i-- {
					parts = append(parts, SampleFromPattern(t, globals, body))
				}
				base = strings.Join(parts, rapid.SampledFrom([]string{"", " ", "\n", "b"}).Draw(t, "joiner"))
			}
			rep := rapid.IntRange(1, 2).Draw(t, "rep")
			c.Text = strings.Repeat(base, rep)
			if len(c.Text) > 14 {
				c.Text = c.Text[:14]
			}
		}
		c.Replace = rapid.IntRange(0, 2).Draw(t, "replace") == 0
		st.Eval()
		SetInflight(func() string { return jsonStr(Failure{Property: "C04", Kind: "window", Case: c}) })
		sig, what, discard, ws := checkWindowCase(c)
		ClearInflight()
		if discard {
			st.Count("discarded_vm_budget")
			return
		}
		if sig == "compile-error" {
			t.Fatalf("HARNESS: %s", what)
		}
		if sig != "" {
			Fail(t, Failure{Property: "C04", Kind: "window", What: what, Case: c, Sig: sig})
		}
		st.Add("clause_runs", int64(ws.clauses))
		st.Count(fmt.Sprintf("lenA_%d", min(ws.lenA, 6)))
		if c.Replace {
			st.Count("replace_cmd")
		}
		if ws.lenA >= 2 && ws.properWins > 0 {
			st.NonTrivial(c.Prefix+"\x00"+c.Body+"\x00"+c.Text+fmt.Sprint(c.Replace), func() any {
				return map[string]any{"source_all": c.source("all"), "text": c.Text, "lenA": ws.lenA, "clauses_compared": ws.clauses}
			})
		}
	})
}
