package props

import (
	"encoding/json"
	"fmt"
	"strconv"
	"strings"
	"testing"
	"time"

	"pgregory.net/rapid"
)

// ReplaceCase: a replace program in IR form (so that the expected replacement can
// be recomputed) and a text.
type ReplaceCase struct {
	Prog *Program `json:"prog"`
	Text string   `json:"text"`
}

const vmLimitReplace = 100_000

// expectedReplacement recomputes the replacement of one reported match from the
// match itself. ok=false: the harness evaluator met an undefined operation.
func expectedReplacement(p *Program, cmd Command, m MatchRec, flat map[string]string, total int) (string, bool) {
	transforms := map[string][]Stmt{}
	for _, t := range p.Transforms {
		transforms[t.Name] = t.Body
	}
	var b strings.Builder
	ok := true
	for _, it := range cmd.With {
		if it.Kind == 0 {
			b.WriteString(it.S)
			continue
		}
		if body, isT := transforms[it.S]; isT {
			env := map[string]Value{}
			for k, v := range flat {
				env[k] = VS(v)
			}
			env["match"] = VS(m.Value)
			env["matchLength"] = VN(len(m.Value))
			env["matchNumber"] = VN(m.MatchNumber)
			// the other built-ins: only ever read on the right of a string concatenation
			// (gen2.go genTransform), where their decimal rendering is all that matters
			env["startOffset"] = VN(m.Start)
			env["endOffset"] = VN(m.End)
			env["lineNumber"] = VN(m.LineStart)
			env["columnNumber"] = VN(m.ColStart)
			env["totalMatches"] = VN(total)
			env["value"] = VS(m.Value)
			func() {
				defer func() {
					if r := recover(); r != nil {
						switch r.(type) {
						case ErrUndefined, ErrBudget:
							ok = false
						default:
							panic(r)
						}
					}
				}()
				budget := 5000
				v, returned := Exec(body, env, &budget)
				if !returned {
					ok = false
					return
				}
				b.WriteString(v.AsString())
			}()
			continue
		}
		switch it.S {
		case "value":
			b.WriteString(m.Value)
		case "matchNumber":
			b.WriteString(strconv.Itoa(m.MatchNumber))
		case "startOffset":
			b.WriteString(strconv.Itoa(m.Start))
		case "endOffset":
			b.WriteString(strconv.Itoa(m.End))
		case "lineNumber":
			b.WriteString(strconv.Itoa(m.LineStart))
		case "columnNumber":
			b.WriteString(strconv.Itoa(m.ColStart))
		case "totalMatches":
			b.WriteString(strconv.Itoa(total))
		case "filename":
			b.WriteString(m.Filename)
		default:
			if v, bound := flat[it.S]; bound {
				b.WriteString(v)
			}
		}
	}
	return b.String(), ok
}

type replaceInfo struct {
	matches       int
	distinctCaps  bool
	hasTransform  bool
	usesTotal     bool
	discardedEval bool
}

func checkReplaceCase(c ReplaceCase) (sig, what string, discard bool, info replaceInfo) {
	src := c.Prog.Source()
	cmd := c.Prog.Commands[0]
	v, err, p := CompileSafe(src)
	if p != nil {
		return p.Sig(), "Compile panicked on " + src + ": " + p.Sig(), false, info
	}
	if err != nil {
		return "compile-error", src + ": " + firstLine(err.Error()), false, info
	}
	res := RunSafe(v, c.Text, vmLimitReplace)
	if res.OverBudget {
		return "", "", true, info
	}
	if res.Panic != nil {
		return res.Panic.Sig(), fmt.Sprintf("%s on %q: Run panicked: %s", src, c.Text, res.Panic.Sig()), false, info
	}
	// differential: same matches as the find command with the same body
	findProg := *c.Prog
	findProg.Commands = []Command{{Amount: cmd.Amount, Body: cmd.Body}}
	findProg.Transforms = nil
	frecs, fsig, fwhat, fdiscard := runSrc(findProg.Source(), c.Text)
	if fdiscard {
		return "", "", true, info
	}
	if fsig != "" {
		return fsig, fwhat, false, info
	}
	recs := RecsOf(res.Matches)
	if len(recs) != len(frecs) {
		return "replace-find-differ", fmt.Sprintf("%s on %q: replace reports %s, find reports %s", src, c.Text, fmtRecs(recs), fmtRecs(frecs)), false, info
	}
	info.matches = len(recs)
	seenCaps := map[string]bool{}
	for i, m := range recs {
		fm := frecs[i]
		cmp := m
		cmp.HasRepl, cmp.Repl = false, ""
		if fmt.Sprint(cmp) != fmt.Sprint(fm) {
			return "replace-find-differ", fmt.Sprintf("%s on %q: match %d differs between replace %+v and find %+v", src, c.Text, i, cmp, fm), false, info
		}
		flat := FlatVars(res.Matches[i])
		want, ok := expectedReplacement(c.Prog, cmd, m, flat, len(recs))
		if !ok {
			info.discardedEval = true
			continue
		}
		if m.Repl != want {
			return "replacement-mismatch", fmt.Sprintf("%s on %q: match %d (%q, vars %v) has replacement %q, the with-list denotes %q", src, c.Text, i, m.Value, flat, m.Repl, want), false, info
		}
		seenCaps[fmt.Sprint(flat)] = true
	}
	info.distinctCaps = len(seenCaps) >= 2
	for _, it := range cmd.With {
		if it.Kind == 1 {
			for _, t := range c.Prog.Transforms {
				if t.Name == it.S {
					info.hasTransform = true
				}
			}
			if it.S == "totalMatches" {
				info.usesTotal = true
			}
		}
	}
	return "", "", false, info
}

func init() {
	registerReplay("replace", func(raw json.RawMessage) (string, string) {
		var c ReplaceCase
		if err := json.Unmarshal(raw, &c); err != nil {
			return "bad-replay-file", err.Error()
		}
		sig, what, _, _ := checkReplaceCase(c)
		return sig, what
	})
}

func loopNames(body []*Node) []string {
	var out []string
	var walk func(n *Node)
	walk = func(n *Node) {
		if n == nil {
			return
		}
		if n.K == KLoop && n.Name != "" {
			out = append(out, n.Name)
		}
		for _, k := range n.Kids {
			walk(k)
		}
		walk(n.Body)
	}
	for _, n := range body {
		walk(n)
	}
	return out
}

func TestC05(t *testing.T) {
	seedNote(t)
	StartWatchdog("C05", 60*time.Second)
	st := NewStats("C05", "replace", "replace <amount> B with i1..ik; items: string literals, captures of B (bound or not), built-ins, undefined names, 0..2 generated transforms over match / matchLength / captures / set-bound variables; expected replacement recomputed from each reported match with the harness evaluator, and matches compared with `find <amount> B`; non-trivial = >=2 matches with different capture values and a transform item; distinct by (source,text)")
	defer st.Write()
	rapid.Check(t, func(t *rapid.T) {
		f := AllModelFeatures
		f.CapBias = true
		f.NamedLoops = true
		depth := rapid.IntRange(1, 3).Draw(t, "depth")
		globals, body := GenBodyProgram(t, f, depth)
		rich := rapid.IntRange(0, 1).Draw(t, "rich") == 0
		if rich {
			// a leading capture whose value differs from match to match
			lead := &Node{K: KCap, S: "c0", Body: &Node{K: KLoop, Min: 1, Max: rapid.SampledFrom([]int{-1, 2, 3}).Draw(t, "leadmax"),
				Body: &Node{K: KClass, Class: rapid.SampledFrom([]string{"letter", "lower", "digit"}).Draw(t, "leadclass")}}}
			if len(body) > 1 {
				body = body[:1]
			}
			body = append([]*Node{lead}, body...)
		}
		caps := captureNames(body, globals...)
		// the name of a named loop holds a table, not text: as a with-item it contributes nothing
		caps = append(caps, loopNames(body)...)
		prog := &Program{Globals: globals}
		nt := rapid.IntRange(0, 2).Draw(t, "ntransforms")
		if rich && nt == 0 {
			nt = 1
		}
		var tnames []string
		for i := 0; i < nt; i++ {
			name := fmt.Sprintf("f%d", i+1)
			prog.Transforms = append(prog.Transforms, Transform{Name: name, Body: genTransform(t, caps)})
			tnames = append(tnames, name)
		}
		cmd := Command{Replace: true, Amount: genAmount(t), Body: body}
		for i := rapid.IntRange(1, 5).Draw(t, "nwith"); i > 0; i-- {
			cmd.With = append(cmd.With, genWithItem(t, caps, tnames))
		}
		if rich {
			cmd.With = append(cmd.With, WithItem{Kind: 1, S: tnames[0]}, WithItem{Kind: 1, S: "c0"})
			if rapid.Bool().Draw(t, "twice") {
				cmd.With = append(cmd.With, WithItem{Kind: 1, S: tnames[rapid.IntRange(0, len(tnames)-1).Draw(t, "again")]})
			}
		}
		prog.Commands = []Command{cmd}
		text, _ := GenText(t, globals, body, true, 20)
		if rich {
			var parts []string
			for i := rapid.IntRange(2, 3).Draw(t, "nsamples"); i > 0; i-- {
				parts = append(parts, SampleFromPattern(t, globals, body))
			}
			text = strings.Join(parts, rapid.SampledFrom([]string{" ", "\n", "-", ", "}).Draw(t, "sepr"))
			if len(text) > 24 {
				text = text[:24]
			}
		}
		c := ReplaceCase{Prog: prog, Text: text}
		st.Eval()
		SetInflight(func() string { return jsonStr(Failure{Property: "C05", Kind: "replace", Case: c}) })
		sig, what, discard, info := checkReplaceCase(c)
		ClearInflight()
		if discard {
			st.Count("discarded_vm_budget")
			return
		}
		if sig == "compile-error" {
			t.Fatalf("HARNESS: %s", what)
		}
		if sig != "" {
			Fail(t, Failure{Property: "C05", Kind: "replace", What: what, Case: c, Sig: sig})
		}
		st.Add("matches_checked", int64(info.matches))
		if info.matches > 0 {
			st.Count("with_match")
		}
		if info.hasTransform {
			st.Count("with_transform_item")
		}
		if info.usesTotal {
			st.Count("uses_totalMatches")
		}
		if info.discardedEval {
			st.Count("discarded_undefined_operation")
		}
		if info.matches >= 2 && info.distinctCaps && info.hasTransform {
			src := prog.Source()
			st.NonTrivial(src+"\x00"+text, func() any { return map[string]any{"src": src, "text": text, "matches": info.matches} })
		}
	})
}
