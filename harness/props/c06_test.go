package props

import (
	"encoding/json"
	"fmt"
	"os"
	"path/filepath"
	"runtime"
	"sort"
	"strings"
	"testing"
	"time"

	"github.com/jmeaster30/vore/libvore/engine"
	"pgregory.net/rapid"
)

// FileCase: a command run on one file of a scratch directory in a given mode.
type FileCase struct {
	Src        string            `json:"src"`
	Content    string            `json:"content"`
	Mode       string            `json:"mode"`  // NOTHING | NEW | OVERWRITE
	Stale      string            `json:"stale"` // "" (absent) or the content of a pre-existing <file>.vored
	HasStale   bool              `json:"has_stale"`
	Bystanders map[string]string `json:"bystanders,omitempty"`
	// More (optional): further searched files, passed to RunFiles after input.txt
	More []NamedContent `json:"more,omitempty"`
}

type NamedContent struct {
	Name    string `json:"name"`
	Content string `json:"content"`
}

func modeOf(s string) engine.ReplaceMode {
	switch s {
	case "NEW":
		return engine.NEW
	case "OVERWRITE":
		return engine.OVERWRITE
	}
	return engine.NOTHING
}

func snapshotDir(dir string) map[string]string {
	out := map[string]string{}
	filepath.Walk(dir, func(p string, info os.FileInfo, err error) error {
		if err != nil || p == dir {
			return nil
		}
		rel, _ := filepath.Rel(dir, p)
		if info.IsDir() {
			out[rel+"/"] = ""
			return nil
		}
		data, _ := os.ReadFile(p)
		out[rel] = string(data)
		return nil
	})
	return out
}

func diffSnap(before, after map[string]string, ignore map[string]bool) string {
	var names []string
	for n := range before {
		names = append(names, n)
	}
	for n := range after {
		if _, ok := before[n]; !ok {
			names = append(names, n)
		}
	}
	sort.Strings(names)
	for _, n := range names {
		if ignore[n] {
			continue
		}
		b, okb := before[n]
		a, oka := after[n]
		switch {
		case okb && !oka:
			return fmt.Sprintf("%s was removed", n)
		case !okb && oka:
			return fmt.Sprintf("%s was created (%d bytes)", n, len(a))
		case a != b:
			return fmt.Sprintf("%s was modified (%d -> %d bytes)", n, len(b), len(a))
		}
	}
	return ""
}

func clip(s string) string {
	if len(s) > 80 {
		return fmt.Sprintf("%q...(%d bytes)", s[:80], len(s))
	}
	return fmt.Sprintf("%q", s)
}

const vmLimitFile = 3_000_000

var c06runs int

func checkFileCase(c FileCase) (sig, what string, discard bool, nmatch int, lenDiff bool) {
	dir, err := os.MkdirTemp(scratchDir(), "c06-")
	if err != nil {
		panic(err)
	}
	defer os.RemoveAll(dir)
	path := filepath.Join(dir, "input.txt")
	os.WriteFile(path, []byte(c.Content), 0o644)
	if c.HasStale {
		os.WriteFile(path+".vored", []byte(c.Stale), 0o644)
	}
	for n, data := range c.Bystanders {
		os.WriteFile(filepath.Join(dir, n), []byte(data), 0o644)
	}
	v, cerr, p := CompileSafe(c.Src)
	if p != nil || cerr != nil {
		return "compile-error", c.Src, false, 0, false
	}
	isReplace := strings.HasPrefix(c.Src, "replace") || strings.Contains(c.Src, " replace ")
	searched := []NamedContent{{Name: "input.txt", Content: c.Content}}
	paths := []string{path}
	for _, m := range c.More {
		os.WriteFile(filepath.Join(dir, m.Name), []byte(m.Content), 0o644)
		searched = append(searched, m)
		paths = append(paths, filepath.Join(dir, m.Name))
	}
	before := snapshotDir(dir)
	res := RunFilesSafe(v, paths, modeOf(c.Mode), vmLimitFile)
	c06runs++
	if c06runs%100 == 0 {
		runtime.GC()
	}
	if res.OverBudget {
		return "", "", true, 0, false
	}
	if res.Panic != nil {
		return res.Panic.Sig(), fmt.Sprintf("%s on a %d-byte file in mode %s: RunFiles panicked: %s", c.Src, len(c.Content), c.Mode, res.Panic.Sig()), false, 0, false
	}
	after := snapshotDir(dir)
	// the splice of every searched file, recomputed from the returned matches
	desc := fmt.Sprintf("%s on %s (+%d more files) in mode %s (stale .vored: %v)", c.Src, clip(c.Content), len(c.More), c.Mode, c.HasStale)
	splices := map[string]string{}
	claimed := 0
	for fi, sf := range searched {
		var b strings.Builder
		last := 0
		for i, m := range res.Matches {
			if m.Filename != paths[fi] {
				continue
			}
			claimed++
			s, e := m.Offset.Start, m.Offset.End
			if s < last || e > len(sf.Content) || s > e {
				return "bad-offsets", fmt.Sprintf("%s: match %d has offsets [%d,%d) (previous end %d, size %d)", c.Src, i, s, e, last, len(sf.Content)), false, 0, false
			}
			b.WriteString(sf.Content[last:s])
			b.WriteString(m.Replacement.GetValueOrDefault(""))
			if len(m.Replacement.GetValueOrDefault("")) != e-s {
				lenDiff = true
			}
			last = e
		}
		b.WriteString(sf.Content[last:])
		splices[sf.Name] = b.String()
	}
	if claimed != len(res.Matches) {
		return "foreign-filename", fmt.Sprintf("%s: %d of %d matches carry a filename that is not one of the searched files", desc, len(res.Matches)-claimed, len(res.Matches)), false, 0, false
	}
	if !isReplace || c.Mode == "NOTHING" {
		if d := diffSnap(before, after, nil); d != "" {
			return "file-touched", desc + ": no file may change, but " + d, false, len(res.Matches), lenDiff
		}
		return "", "", false, len(res.Matches), lenDiff
	}
	allowed := map[string]bool{}
	for _, sf := range searched {
		target := sf.Name
		if c.Mode == "NEW" {
			target = sf.Name + ".vored"
		}
		allowed[target] = true
		got, ok := after[target]
		if !ok {
			return "output-missing", desc + ": " + target + " was not created", false, len(res.Matches), lenDiff
		}
		if got != splices[sf.Name] {
			return "splice-mismatch", fmt.Sprintf("%s: %s holds %s, the splice of the reported matches is %s", desc, target, clip(got), clip(splices[sf.Name])), false, len(res.Matches), lenDiff
		}
	}
	if d := diffSnap(before, after, allowed); d != "" {
		return "file-touched", desc + ": only the " + c.Mode + " targets may change, but " + d, false, len(res.Matches), lenDiff
	}
	return "", "", false, len(res.Matches), lenDiff
}

func init() {
	registerReplay("file", func(raw json.RawMessage) (string, string) {
		var c FileCase
		if err := json.Unmarshal(raw, &c); err != nil {
			return "bad-replay-file", err.Error()
		}
		sig, what, _, _, _ := checkFileCase(c)
		return sig, what
	})
}

var fileBodies = []string{"'ab'", "between 1 and 3 digit", "'x' any", "'\\n'", "whitespace", "(letter = l) digit", "'é'", "between 2 and 4 'a'", "line start 'a'", "'zzzz'", "upper", "in 'a', 'b' 'c'", "at least 1 digit fewest"}
var fileWith = []string{"''", "'Y'", "'a longer replacement text'", "value value", "'<' value '>'", "matchNumber", "'→'", "'é' value", "l", "nosuch", "'' ''"}
var filePieces = []string{"ab", "a", "b", "c", "x", "1", "22", " ", "\n", "A", "é", "zz", "abc", "xy", "a1", "\t"}

// a piece of text that each file body matches, so that most files have matches
var fileBodyHit = map[string]string{"'ab'": "ab", "between 1 and 3 digit": "12", "'x' any": "xy", "'\\n'": "\n", "whitespace": " ", "(letter = l) digit": "a1",
	"'é'": "é", "between 2 and 4 'a'": "aaa", "line start 'a'": "\na", "upper": "A", "in 'a', 'b' 'c'": "ac", "at least 1 digit fewest": "7"}

func genContent(t *rapid.T, must string) string {
	size := 0
	switch rapid.IntRange(0, 9).Draw(t, "sizeclass") {
	case 0:
		size = 0
	case 1, 2, 3, 4:
		size = rapid.IntRange(1, 60).Draw(t, "small")
	case 5, 6:
		size = rapid.SampledFrom([]int{2047, 2048, 2049, 4094, 4095, 4096, 4097, 4098, 6143, 6144, 6145, 8191, 8192, 8193}).Draw(t, "boundary")
	case 7, 8:
		size = rapid.IntRange(61, 5000).Draw(t, "medium")
	default:
		size = rapid.IntRange(5001, 20000).Draw(t, "large")
	}
	var b strings.Builder
	// a short random period repeated keeps generation cheap and matches frequent
	period := rapid.SliceOfN(rapid.SampledFrom(filePieces), 1, 12).Draw(t, "period")
	if must != "" && rapid.IntRange(0, 4).Draw(t, "plant") != 0 {
		period = append(period, must)
	}
	unit := strings.Join(period, "")
	for b.Len() < size {
		b.WriteString(unit)
		if rapid.IntRange(0, 15).Draw(t, "vary") == 0 {
			b.WriteString(rapid.SampledFrom(filePieces).Draw(t, "extra"))
		}
		if b.Len() > 400 {
			// bulk fill without further draws
			for b.Len() < size {
				b.WriteString(unit)
			}
		}
	}
	s := b.String()
	if len(s) > size {
		s = s[:size]
	}
	return s
}

func TestC06(t *testing.T) {
	seedNote(t)
	StartWatchdog("C06", 120*time.Second)
	st := NewStats("C06", "files", "one replace (or find) command x file content (sizes 0..20000, biased to small sizes and to multiples of 2048 +-1) x mode {NOTHING, NEW, OVERWRITE} x stale <file>.vored {absent, shorter, longer} x bystander files; replacements empty, shorter, longer, multi-byte, from captures and undefined names; directory snapshot before/after RunFiles against the splice recomputed from the returned matches; non-trivial = >=2 matches and a replacement whose length differs from its match; distinct by the whole case")
	defer st.Write()
	rapid.Check(t, func(t *rapid.T) {
		body := rapid.SampledFrom(fileBodies).Draw(t, "body")
		amount := strings.Join(genAmount(t), " ")
		var src string
		if rapid.IntRange(0, 5).Draw(t, "find") == 0 {
			src = "find " + amount + " " + body
		} else {
			src = "replace " + amount + " " + body + " with " + rapid.SampledFrom(fileWith).Draw(t, "with")
		}
		c := FileCase{Src: src, Content: genContent(t, fileBodyHit[body]), Mode: rapid.SampledFrom([]string{"NOTHING", "NEW", "NEW", "OVERWRITE", "OVERWRITE"}).Draw(t, "mode")}
		switch rapid.IntRange(0, 3).Draw(t, "stale") {
		case 1:
			c.HasStale, c.Stale = true, "old"
		case 2:
			c.HasStale, c.Stale = true, c.Content+c.Content+"a much longer stale result that must not survive\n"
		}
		if rapid.Bool().Draw(t, "bystanders") {
			c.Bystanders = map[string]string{"other.txt": "ab 12 x", "input.txt.bak": c.Content, "input.tx": "ab"}
		}
		if rapid.IntRange(0, 3).Draw(t, "morefiles") == 0 {
			c.More = append(c.More, NamedContent{Name: "second.txt", Content: genContent(t, fileBodyHit[body])})
			if rapid.Bool().Draw(t, "third") {
				c.More = append(c.More, NamedContent{Name: "third.md", Content: rapid.SampledFrom([]string{"", "ab", "a1 ab\n12 xy é"}).Draw(t, "thirdc")})
			}
		}
		st.Eval()
		SetInflight(func() string { return jsonStr(Failure{Property: "C06", Kind: "file", Case: c}) })
		sig, what, discard, n, lenDiff := checkFileCase(c)
		ClearInflight()
		if discard {
			st.Count("discarded_vm_budget")
			return
		}
		if sig == "compile-error" {
			t.Fatalf("HARNESS: does not compile: %s", what)
		}
		if sig != "" {
			Fail(t, Failure{Property: "C06", Kind: "file", What: what, Case: c, Sig: sig})
		}
		st.Count("mode_" + c.Mode)
		if len(c.More) > 0 {
			st.Count("several_files")
		}
		if c.HasStale {
			st.Count("stale_present")
			if len(c.Stale) > len(c.Content) {
				st.Count("stale_longer")
			}
		}
		if n == 0 {
			st.Count("zero_matches")
		}
		if len(c.Content) == 0 {
			st.Count("empty_file")
		}
		if len(c.Content) > 4096 {
			st.Count("larger_than_buffer")
		}
		if n >= 2 && lenDiff {
			st.NonTrivial(jsonStr(c), func() any {
				return map[string]any{"src": c.Src, "mode": c.Mode, "size": len(c.Content), "matches": n, "stale": c.HasStale}
			})
		}
	})
}

// TestC06Big: files of 64 KiB .. 1 MiB, where the unmatched head, gaps and tail the
// splice has to copy are far longer than any buffer. `top n` commands whose matches
// lie near the start keep the search cheap (the scan stops after the n-th match);
// the copy of the rest is what is exercised.
func TestC06Big(t *testing.T) {
	seedNote(t)
	StartWatchdog("C06", 120*time.Second)
	st := NewStats("C06", "big", "exhaustive over (size, command, mode): files of 65535..65637, 70000, 131072, 131073, 150000 bytes (thorough: also 1 MiB + 3) made of numbered lines x {replace top 1 of a token on the first line by a longer / shorter / empty text, replace top 2 of a token on lines 1 and 2, a replace with no match (sizes <= 150000), replace last 1 of a token that occurs on every 500th line} x {NOTHING, NEW, OVERWRITE}, with a stale longer .vored present; oracle: the splice recomputed from the returned matches; every case non-trivial; distinct by (size, command, mode)")
	st.Exhaustive = true
	defer st.Write()
	sizes := []int{65535, 65536, 65537, 65637, 70000, 131072, 131073, 150000}
	if tier() == "thorough" {
		sizes = append(sizes, 1<<20+3)
	}
	nshards := envInt("VERIF_NSHARDS", 1)
	shardIdx := envInt("VERIF_SHARD_INDEX", 0)
	for si, size := range sizes {
		if si%nshards != shardIdx {
			continue
		}
		var b strings.Builder
		b.WriteString("VERSION=1 of the file\n")
		for i := 0; b.Len() < size; i++ {
			if i%500 == 499 {
				fmt.Fprintf(&b, "line %06d MARK and some filler text to make the line longer\n", i)
			} else {
				fmt.Fprintf(&b, "line %06d and some filler text to make the line a bit longer\n", i)
			}
		}
		content := b.String()[:size]
		cmds := []string{
			"replace top 1 'VERSION=1' with 'VERSION=1.0.1-rc2'",
			"replace top 1 'VERSION=1' with 'V'",
			"replace top 1 'VERSION=1 ' with ''",
			"replace top 2 'line ' with '<' value '>'",
		}
		if size <= 150000 {
			cmds = append(cmds, "replace all 'no such token' with 'x'", "replace last 1 'MARK' with 'THE LAST MARK'")
		}
		for _, cmd := range cmds {
			for _, mode := range []string{"NOTHING", "NEW", "OVERWRITE"} {
				c := FileCase{Src: cmd, Content: content, Mode: mode, HasStale: true, Stale: strings.Repeat("stale ", size/5)}
				st.Eval()
				SetInflight(func() string { return jsonStr(Failure{Property: "C06", Kind: "file", Case: c}) })
				sig, what, discard, _, _ := checkFileCase(c)
				ClearInflight()
				if discard {
					st.Count("discarded_vm_budget")
					continue
				}
				if sig != "" {
					Fail(t, Failure{Property: "C06", Kind: "file", What: clipMsg(what, 600), Case: c, Sig: sig})
				}
				st.NonTrivial(fmt.Sprint(size, cmd, mode), func() any { return map[string]any{"size": size, "command": cmd, "mode": mode} })
			}
		}
	}
}

// SeqCase: a program of two commands (or one command over the same file twice) run
// through RunFiles. The commands work one after the other: in OVERWRITE mode the
// second sees the file the first wrote, in NEW mode both read the unchanged file and
// the second result replaces the first <file>.vored.
type SeqCase struct {
	Cmd1    string `json:"cmd1"`
	Cmd2    string `json:"cmd2"` // "" = Cmd1 once, with the file listed twice
	Content string `json:"content"`
	Mode    string `json:"mode"`
}

// runOne runs one command on a file holding content and returns the matches and
// the final content of the file and of its .vored (or "" when absent).
func runOne(src string, content string, mode string, listTwice bool) (recs []MatchRec, file string, vored string, hasVored bool, sig string, discard bool) {
	dir, err := os.MkdirTemp(scratchDir(), "c06s-")
	if err != nil {
		panic(err)
	}
	defer os.RemoveAll(dir)
	path := filepath.Join(dir, "input.txt")
	os.WriteFile(path, []byte(content), 0o644)
	v, cerr, p := CompileSafe(src)
	if p != nil || cerr != nil {
		return nil, "", "", false, "compile-error", false
	}
	paths := []string{path}
	if listTwice {
		paths = append(paths, path)
	}
	res := RunFilesSafe(v, paths, modeOf(mode), vmLimitFile)
	if res.OverBudget {
		return nil, "", "", false, "", true
	}
	if res.Panic != nil {
		return nil, "", "", false, res.Panic.Sig(), false
	}
	recs = RecsOf(res.Matches)
	for i := range recs {
		recs[i].Filename = ""
	}
	fb, _ := os.ReadFile(path)
	vb, verr := os.ReadFile(path + ".vored")
	return recs, string(fb), string(vb), verr == nil, "", false
}

func checkSeqCase(c SeqCase) (sig, what string, discard bool) {
	combined := c.Cmd1 + " " + c.Cmd2
	twice := c.Cmd2 == ""
	if twice {
		combined = c.Cmd1
	}
	got, gotFile, gotVored, gotHas, sig, discard := runOne(combined, c.Content, c.Mode, twice)
	if discard {
		return "", "", true
	}
	if sig != "" {
		return sig, fmt.Sprintf("%s on %s in mode %s: %s", combined, clip(c.Content), c.Mode, sig), false
	}
	// the same work, one call per step
	m1, f1, v1, h1, s1, d1 := runOne(c.Cmd1, c.Content, c.Mode, false)
	second := c.Cmd2
	if twice {
		second = c.Cmd1
	}
	input2 := c.Content
	if c.Mode == "OVERWRITE" {
		input2 = f1
	}
	m2, f2, v2, h2, s2, d2 := runOne(second, input2, c.Mode, false)
	if d1 || d2 {
		return "", "", true
	}
	if s1 != "" || s2 != "" {
		return "", "", true // a step that fails alone is C09's business
	}
	if !h2 {
		// the second step wrote no .vored (a find command, mode NOTHING / OVERWRITE):
		// what the first step left stays
		v2, h2 = v1, h1
	}
	desc := fmt.Sprintf("%s on %s in mode %s", combined, clip(c.Content), c.Mode)
	if twice {
		desc = fmt.Sprintf("%s on the same file listed twice, %s, mode %s", c.Cmd1, clip(c.Content), c.Mode)
	}
	want := append(append([]MatchRec{}, m1...), m2...)
	if !recsEqual(got, want) {
		return "sequence-matches", fmt.Sprintf("%s: matches %s, but the steps taken one by one give %s", desc, fmtRecs(got), fmtRecs(want)), false
	}
	if gotFile != f2 {
		return "sequence-file", fmt.Sprintf("%s: the file holds %s, the steps taken one by one leave %s", desc, clip(gotFile), clip(f2)), false
	}
	if gotHas != h2 || gotVored != v2 {
		return "sequence-vored", fmt.Sprintf("%s: the .vored file holds %s (present %v), the steps taken one by one leave %s (present %v)", desc, clip(gotVored), gotHas, clip(v2), h2), false
	}
	return "", "", false
}

func init() {
	registerReplay("fileseq", func(raw json.RawMessage) (string, string) {
		var c SeqCase
		if err := json.Unmarshal(raw, &c); err != nil {
			return "bad-replay-file", err.Error()
		}
		sig, what, _ := checkSeqCase(c)
		return sig, what
	})
}

// TestC06Seq: two commands in one program, or one command over the same file
// listed twice, against the same steps taken in separate calls (each of which the
// splice oracle of the main part decides).
func TestC06Seq(t *testing.T) {
	seedNote(t)
	StartWatchdog("C06", 120*time.Second)
	st := NewStats("C06", "sequence", "two find / replace commands in one program (or one command with the file listed twice) x file content x {NOTHING, NEW, OVERWRITE}; oracle: the same steps taken in separate RunFiles calls - in OVERWRITE mode the second step on the file the first one left - give the same matches, file and .vored; non-trivial = OVERWRITE with a first step that changes the file and a second step with >= 1 match; distinct by the whole case")
	defer st.Write()
	rapid.Check(t, func(t *rapid.T) {
		gen := func(label string) (string, string) {
			body := rapid.SampledFrom(fileBodies).Draw(t, label+"body")
			if rapid.IntRange(0, 4).Draw(t, label+"find") == 0 {
				return "find " + strings.Join(genAmount(t), " ") + " " + body, body
			}
			return "replace " + strings.Join(genAmount(t), " ") + " " + body + " with " + rapid.SampledFrom(fileWith).Draw(t, label+"with"), body
		}
		cmd1, body1 := gen("a")
		c := SeqCase{Cmd1: cmd1, Mode: rapid.SampledFrom([]string{"NOTHING", "NEW", "OVERWRITE", "OVERWRITE"}).Draw(t, "mode")}
		if rapid.IntRange(0, 3).Draw(t, "twice") != 0 {
			c.Cmd2, _ = gen("b")
		}
		c.Content = genContent(t, fileBodyHit[body1])
		if len(c.Content) > 6000 {
			c.Content = c.Content[:6000]
		}
		st.Eval()
		SetInflight(func() string { return jsonStr(Failure{Property: "C06", Kind: "fileseq", Case: c}) })
		sig, what, discard := checkSeqCase(c)
		ClearInflight()
		if discard {
			st.Count("discarded")
			return
		}
		if sig == "compile-error" {
			t.Fatalf("HARNESS: does not compile: %s", what)
		}
		if sig != "" {
			Fail(t, Failure{Property: "C06", Kind: "fileseq", What: what, Case: c, Sig: sig})
		}
		st.Count("mode_" + c.Mode)
		if c.Cmd2 == "" {
			st.Count("same_file_twice")
		}
		if c.Mode == "OVERWRITE" && strings.HasPrefix(c.Cmd1, "replace") {
			st.NonTrivial(jsonStr(c), func() any { return c })
		}
	})
}
