package props

import (
	"encoding/json"
	"fmt"
	"os"
	"path/filepath"
	"runtime"
	"strings"
	"testing"
	"time"

	"github.com/jmeaster30/vore/libvore/engine"
	"github.com/jmeaster30/vore/libvore/files"
	"pgregory.net/rapid"
)

// ---------------------------------------------------------------- part A: reader histories

type ReadOp struct {
	Kind string `json:"kind"` // "seekread" | "readat"
	Off  int    `json:"off"`
	Len  int    `json:"len"`
}

type ReaderCase struct {
	Size int      `json:"size"`
	Salt int      `json:"salt"`
	Ops  []ReadOp `json:"ops"`
}

func readerContent(size, salt int) []byte {
	b := make([]byte, size)
	for i := range b {
		b[i] = byte((i*31+salt+i/251)%251) + 1
	}
	return b
}

func readerOp(r *files.Reader, op ReadOp) (out string, p *PanicInfo) {
	defer func() {
		if rec := recover(); rec != nil {
			p = capturePanic(rec)
		}
	}()
	if op.Kind == "readat" {
		return r.ReadAt(op.Len, op.Off), nil
	}
	r.Seek(op.Off)
	return r.Read(op.Len), nil
}

func checkReaderCase(c ReaderCase) (sig, what string) {
	dir, err := os.MkdirTemp(scratchDir(), "c07a-")
	if err != nil {
		panic(err)
	}
	defer os.RemoveAll(dir)
	path := filepath.Join(dir, "data.bin")
	content := readerContent(c.Size, c.Salt)
	os.WriteFile(path, content, 0o644)
	var fr *files.Reader
	var p *PanicInfo
	func() {
		defer func() {
			if rec := recover(); rec != nil {
				p = capturePanic(rec)
			}
		}()
		fr = files.ReaderFromFile(path)
	}()
	if p != nil {
		return p.Sig(), fmt.Sprintf("ReaderFromFile on a %d-byte file panicked: %s", c.Size, p.Sig())
	}
	defer func() {
		defer func() { recover() }()
		fr.Close()
	}()
	sr := files.ReaderFromString(string(content))
	if fr.Size() != c.Size {
		return "reader-size", fmt.Sprintf("Size() = %d for a %d-byte file", fr.Size(), c.Size)
	}
	for i, op := range c.Ops {
		want := ""
		if op.Len > 0 && op.Off+op.Len <= c.Size {
			want = string(content[op.Off : op.Off+op.Len])
		}
		got, p := readerOp(fr, op)
		if p != nil {
			return p.Sig(), fmt.Sprintf("size %d, step %d %+v (history %v): file reader panicked: %s", c.Size, i, op, c.Ops[:i], p.Sig())
		}
		if got != want {
			return "reader-bytes", fmt.Sprintf("size %d, step %d %+v (history %v): file reader returned %s, the file holds %s", c.Size, i, op, c.Ops[:i], clip(got), clip(want))
		}
		gs, p := readerOp(sr, op)
		if p != nil {
			return p.Sig(), fmt.Sprintf("size %d, step %d %+v: string reader panicked: %s", c.Size, i, op, p.Sig())
		}
		if gs != want {
			return "reader-bytes", fmt.Sprintf("size %d, step %d %+v: string reader returned %s, expected %s", c.Size, i, op, clip(gs), clip(want))
		}
	}
	return "", ""
}

func init() {
	registerReplay("reader", func(raw json.RawMessage) (string, string) {
		var c ReaderCase
		if err := json.Unmarshal(raw, &c); err != nil {
			return "bad-replay-file", err.Error()
		}
		return checkReaderCase(c)
	})
}

var boundarySizes = []int{0, 1, 2, 2047, 2048, 2049, 4094, 4095, 4096, 4097, 4098, 6143, 6144, 6145, 8191, 8192, 8193, 10240, 12288}

func genFileSize(t *rapid.T) int {
	switch rapid.IntRange(0, 3).Draw(t, "sizeclass") {
	case 0, 1:
		return rapid.SampledFrom(boundarySizes).Draw(t, "bsize")
	case 2:
		return rapid.IntRange(0, 5000).Draw(t, "msize")
	default:
		return rapid.IntRange(4097, 20000).Draw(t, "lsize")
	}
}

func TestC07Reader(t *testing.T) {
	seedNote(t)
	StartWatchdog("C07", 60*time.Second)
	st := NewStats("C07", "reader", "stateful: a file of size N (0, 1, around 2048/4096/6144/8192 and random <= 20000) read through files.ReaderFromFile with histories of the engine's two access shapes (Seek(o);Read(k) and ReadAt(k,o); 0<=o<=N, 0<=k<=9000; forward, one-byte-back, far-back and window-edge offsets); after every step the result equals the bytes of the file (or \"\" when the range does not fit) and the result of ReaderFromString on the same history; non-trivial = N > 4096 and the history seeks backwards by more than a buffer window after reading beyond it; distinct by (N, history)")
	defer st.Write()
	rapid.Check(t, func(t *rapid.T) {
		c := ReaderCase{Size: genFileSize(t), Salt: rapid.IntRange(0, 250).Draw(t, "salt")}
		n := rapid.IntRange(1, 30).Draw(t, "nops")
		prev := 0
		farBack := false
		maxSeen := 0
		for i := 0; i < n; i++ {
			var off int
			switch rapid.IntRange(0, 7).Draw(t, "offkind") {
			case 0:
				off = prev // re-read
			case 1:
				off = prev + rapid.IntRange(0, 40).Draw(t, "fwd")
			case 2:
				off = prev - 1
			case 3:
				off = prev - rapid.IntRange(2, 6000).Draw(t, "back")
			case 4:
				off = rapid.SampledFrom([]int{2047, 2048, 2049, 4095, 4096, 4097, 6143, 6144, 8191, 8192}).Draw(t, "edge") + rapid.IntRange(-3, 3).Draw(t, "edged")
			case 5:
				off = c.Size - rapid.IntRange(0, 5).Draw(t, "tail")
			default:
				off = rapid.IntRange(0, c.Size).Draw(t, "anyoff")
			}
			if off < 0 {
				off = 0
			}
			if off > c.Size {
				off = c.Size
			}
			var l int
			switch rapid.IntRange(0, 5).Draw(t, "lenkind") {
			case 0:
				l = 0
			case 1, 2, 3:
				l = rapid.IntRange(1, 8).Draw(t, "short")
			case 4:
				l = rapid.IntRange(9, 300).Draw(t, "mid")
			default:
				l = rapid.IntRange(2000, 9000).Draw(t, "long")
			}
			kind := "seekread"
			if rapid.IntRange(0, 3).Draw(t, "readat") == 0 {
				kind = "readat"
			}
			c.Ops = append(c.Ops, ReadOp{Kind: kind, Off: off, Len: l})
			if maxSeen > 4096 && off < maxSeen-4096 {
				farBack = true
			}
			if off+l > maxSeen && off+l <= c.Size {
				maxSeen = off + l
			}
			prev = off
		}
		st.Eval()
		SetInflight(func() string { return jsonStr(Failure{Property: "C07", Kind: "reader", Case: c}) })
		sig, what := checkReaderCase(c)
		ClearInflight()
		if sig != "" {
			Fail(t, Failure{Property: "C07", Kind: "reader", What: what, Case: c, Sig: sig})
		}
		st.Add("read_steps", int64(len(c.Ops)))
		if c.Size == 0 {
			st.Count("empty_file")
		}
		if c.Size > 4096 && farBack {
			st.NonTrivial(jsonStr(c), func() any { return map[string]any{"size": c.Size, "ops": c.Ops} })
		}
	})
}

// ---------------------------------------------------------------- part B: file vs string

type FileVsStringCase struct {
	Src     string `json:"src"`
	Content string `json:"content"`
	ViaLink bool   `json:"via_link,omitempty"` // the file is searched through a symbolic link
	Limit   int64  `json:"limit,omitempty"`    // VM step limit (default vmLimitFile)
}

var c07runs int

func checkFileVsString(c FileVsStringCase) (sig, what string, discard bool, nmatch int) {
	v, cerr, p := CompileSafe(c.Src)
	if p != nil || cerr != nil {
		return "compile-error", c.Src, false, 0
	}
	limit := c.Limit
	if limit == 0 {
		limit = vmLimitFile
	}
	sres := RunSafe(v, c.Content, limit)
	if sres.OverBudget {
		return "", "", true, 0
	}
	dir, err := os.MkdirTemp(scratchDir(), "c07b-")
	if err != nil {
		panic(err)
	}
	defer os.RemoveAll(dir)
	path := filepath.Join(dir, "input.txt")
	os.WriteFile(path, []byte(c.Content), 0o644)
	if c.ViaLink {
		link := filepath.Join(dir, "current.txt")
		os.Symlink("input.txt", link)
		path = link
	}
	fres := RunFilesSafe(v, []string{path}, engine.NOTHING, limit)
	c07runs++
	if c07runs%100 == 0 {
		runtime.GC()
	}
	if fres.OverBudget {
		return "", "", true, 0
	}
	desc := fmt.Sprintf("%s on a %d-byte file", c.Src, len(c.Content))
	if sres.Panic != nil && fres.Panic != nil {
		return "", "", true, 0 // crashes on both sides are C09's business
	}
	if fres.Panic != nil {
		return fres.Panic.Sig(), desc + ": RunFiles panicked (Run on the same bytes does not): " + fres.Panic.Sig(), false, 0
	}
	if sres.Panic != nil {
		return sres.Panic.Sig(), desc + ": Run panicked (RunFiles on the same bytes does not): " + sres.Panic.Sig(), false, 0
	}
	a, b := RecsOf(sres.Matches), RecsOf(fres.Matches)
	if len(a) != len(b) {
		return "file-string-differ", fmt.Sprintf("%s: %d matches in memory, %d from the file; first in-memory %s, first from file %s", desc, len(a), len(b), fmtRecs(head(a)), fmtRecs(head(b))), false, 0
	}
	for i := range a {
		x, y := a[i], b[i]
		y.Filename = x.Filename
		if fmt.Sprint(x) != fmt.Sprint(y) {
			return "file-string-differ", fmt.Sprintf("%s: match %d differs: in memory %+v, from the file %+v", desc, i, x, y), false, 0
		}
	}
	return "", "", false, len(a)
}

func head(a []MatchRec) []MatchRec {
	if len(a) > 3 {
		return a[:3]
	}
	return a
}

func init() {
	registerReplay("filevsstring", func(raw json.RawMessage) (string, string) {
		var c FileVsStringCase
		if err := json.Unmarshal(raw, &c); err != nil {
			return "bad-replay-file", err.Error()
		}
		sig, what, _, _ := checkFileVsString(c)
		return sig, what
	})
}

var c07Programs = []string{
	"find all 'needle'",
	"find all line start 'needle'",
	"find all 'needle' line end",
	"find all word start 'needle' word end",
	"find all 'n' at least 0 any fewest 'e'",
	"find all (any = c) 'ee' c",
	"find all 'need' not 'x'",
	"find all between 1 and 3 digit",
	"find all 'ne' at most 4 letter 'le'",
	"find last 2 'needle'",
	"find skip 1 take 2 'eed'",
	"replace all 'needle' with 'pin' value",
	"replace all 'needle' with 'x' find all 'eed'",
	"find all 'eed' replace all 'needle' with '' find all 'n'",
	"find all not in 'n', '.', '\\n' ",
	"find all 'needle' or 'ne'",
	"find all '.needle' file end",
	"find all file start at most 5 any",
	"find all whole line",
	"find all '\\n' whole word",
}

// genPlantedContent builds a file whose tokens sit around multiples of 2048.
func genPlantedContent(t *rapid.T) (string, bool) {
	size := genFileSize(t)
	b := make([]byte, size)
	for i := range b {
		switch {
		case i%61 == 60:
			b[i] = '\n'
		case i%17 == 16:
			b[i] = ' '
		default:
			b[i] = '.'
		}
	}
	token := rapid.SampledFrom([]string{"needle", "needle", "needle\n", " needle ", "neeedle", "n12e", "need", "xneedlex", "\nneedle", "9"}).Draw(t, "token")
	nearEdge := false
	nplant := rapid.IntRange(0, 6).Draw(t, "nplant")
	for i := 0; i < nplant; i++ {
		var pos int
		if rapid.IntRange(0, 3).Draw(t, "edgeplant") != 0 && size > 2048 {
			k := rapid.IntRange(1, size/2048).Draw(t, "k")
			pos = k*2048 + rapid.IntRange(-8, 3).Draw(t, "delta")
			nearEdge = true
		} else {
			pos = rapid.IntRange(0, max(size-1, 0)).Draw(t, "pos")
		}
		if pos < 0 || pos+len(token) > size {
			continue
		}
		copy(b[pos:], token)
	}
	if size > 0 && rapid.IntRange(0, 3).Draw(t, "tailtoken") == 0 && size >= len(token) {
		copy(b[size-len(token):], token)
	}
	return string(b), nearEdge && size > 4096
}

func TestC07Files(t *testing.T) {
	seedNote(t)
	StartWatchdog("C07", 120*time.Second)
	st := NewStats("C07", "files", "programs that issue the engine's access patterns (lazy loops running forward over window boundaries, line / word anchors reading one byte back, back-references, failing attempts that restart far back, last/skip clauses, multi-command programs incl. replace followed by find) x files of size 0, 1, around 2048/4096/6144/8192 and up to 20000 with tokens planted within 8 bytes of multiples of 2048 and at the end; RunFiles([f], NOTHING) vs Run(string) on all fields except Filename; non-trivial = file > 4096 bytes with a token planted at a window boundary and >= 1 match; distinct by (program, content)")
	defer st.Write()
	rapid.Check(t, func(t *rapid.T) {
		content, nearEdge := genPlantedContent(t)
		c := FileVsStringCase{Src: rapid.SampledFrom(c07Programs).Draw(t, "prog"), Content: content, ViaLink: rapid.IntRange(0, 4).Draw(t, "vialink") == 0}
		if c.ViaLink {
			st.Count("through_a_symbolic_link")
		}
		st.Eval()
		SetInflight(func() string { return jsonStr(Failure{Property: "C07", Kind: "filevsstring", Case: c}) })
		sig, what, discard, n := checkFileVsString(c)
		ClearInflight()
		if discard {
			st.Count("discarded")
			return
		}
		if sig == "compile-error" {
			t.Fatalf("HARNESS: does not compile: %s", what)
		}
		if sig != "" {
			Fail(t, Failure{Property: "C07", Kind: "filevsstring", What: what, Case: c, Sig: sig})
		}
		if len(content) == 0 {
			st.Count("empty_file")
		}
		if n > 0 {
			st.Count("with_match")
		}
		if strings.Contains(c.Src, "replace") {
			st.Count("multi_or_replace")
		}
		if nearEdge && n > 0 {
			st.NonTrivial(c.Src+"\x00"+content, func() any { return map[string]any{"src": c.Src, "size": len(content), "matches": n} })
		}
	})
}

// TestC07Big: files of 300 kB .. 3 MiB (the buffered reader may well treat big
// files differently), searched completely, against the same bytes in memory.
func TestC07Big(t *testing.T) {
	seedNote(t)
	abortAfter = 150 * time.Second // a complete search of a megabyte takes seconds
	StartWatchdog("C07", 180*time.Second)
	st := NewStats("C07", "big", "exhaustive over (size, program): files of 300000, 1048575, 1048576, 1060921 bytes (thorough: also 2 MiB + 1 and 3146505) of numbered lines with a token planted every ~37 kB and in the last line x {find all of the token with a digit, find last 2 of it, a line-anchored find}; RunFiles([f], NOTHING) vs Run(string), every field; every case non-trivial; distinct by (size, program)")
	st.Exhaustive = true
	defer st.Write()
	sizes := []int{300000, 1<<20 - 1, 1 << 20, 1060921}
	if tier() == "thorough" {
		sizes = append(sizes, 2<<20+1, 3146505)
	}
	nshards := envInt("VERIF_NSHARDS", 1)
	shardIdx := envInt("VERIF_SHARD_INDEX", 0)
	for si, size := range sizes {
		if si%nshards != shardIdx {
			continue
		}
		var b strings.Builder
		for i := 0; b.Len() < size-40; i++ {
			if i%700 == 350 {
				fmt.Fprintf(&b, "line %07d has the needle%d in it, somewhere\n", i, i%10)
			} else {
				fmt.Fprintf(&b, "line %07d is filler text of ordinary length\n", i)
			}
		}
		b.WriteString("the last line ends in a needle7")
		content := b.String()
		for len(content) < size {
			content = "x" + content
		}
		for _, prog := range []string{"find all 'needle' digit", "find last 2 'needle' digit", "find all line start 'line' ' ' at least 7 digit ' has'"} {
			c := FileVsStringCase{Src: prog, Content: content, Limit: 40_000_000}
			st.Eval()
			SetInflight(func() string { return jsonStr(Failure{Property: "C07", Kind: "filevsstring", Case: FileVsStringCase{Src: prog, Content: "(" + fmt.Sprint(len(content)) + " bytes)"}}) })
			sig, what, discard, n := checkFileVsString(c)
			ClearInflight()
			if discard {
				t.Fatalf("HARNESS: %s on %d bytes exceeds the step limit", prog, len(content))
			}
			if sig != "" {
				Fail(t, Failure{Property: "C07", Kind: "filevsstring", What: clipMsg(what, 600), Case: c, Sig: sig})
			}
			st.Max("max_matches", int64(n))
			st.NonTrivial(fmt.Sprint(size, prog), func() any { return map[string]any{"size": len(content), "program": prog, "matches": n} })
		}
	}
}
