package props

import (
	"encoding/json"
	"fmt"
	"os"
	"path/filepath"
	"reflect"
	"regexp"
	"sort"
	"strconv"
	"strings"
	"testing"
	"time"

	"github.com/jmeaster30/vore/libvore/ast"
	"github.com/jmeaster30/vore/libvore/bytecode"
	"pgregory.net/rapid"
)

// SrcCase: a source text given to Compile.
type SrcCase struct {
	Src string `json:"src"`
}

var digitsRe = regexp.MustCompile(`[0-9]+`)

// loopProduct is the K3 exclusion: the product of all numeric literals (capped).
func loopProduct(src string) int {
	prod := 1
	var nums []string
	for _, tok := range crudeTokens(src) {
		switch {
		case tok[0] >= '0' && tok[0] <= '9':
			nums = append(nums, tok)
		case strings.HasPrefix(tok, "@/"), tok[0] == '@', tok[0] == '/', tok[0] == '{':
			nums = append(nums, digitsRe.FindAllString(tok, -1)...)
		case tok[0] == '\'', tok[0] == '"', strings.HasPrefix(tok, "--"):
			// digits inside complete string literals and comments are not loop bounds
		default:
			nums = append(nums, digitsRe.FindAllString(tok, -1)...)
		}
	}
	if strings.Contains(src, "@/") {
		// a regex literal may be unterminated or contain '/' splits: count every digit run after it
		nums = append(nums, digitsRe.FindAllString(src[strings.Index(src, "@/"):], -1)...)
	}
	for _, d := range nums {
		n, err := strconv.Atoi(d)
		if err != nil || n > 100000 {
			return 1 << 30
		}
		if n > 1 {
			prod *= n
		}
		if prod > 1<<30 {
			return 1 << 30
		}
	}
	return prod
}

// findHoles walks v and reports the path of the first nil pointer / nil interface.
func findHoles(v reflect.Value, path string, depth int) string {
	if depth > 200 {
		return ""
	}
	switch v.Kind() {
	case reflect.Ptr:
		if v.IsNil() {
			return path + " is a nil pointer"
		}
		return findHoles(v.Elem(), path, depth+1)
	case reflect.Interface:
		if v.IsNil() {
			return path + " is a nil interface"
		}
		return findHoles(v.Elem(), path+".("+v.Elem().Type().String()+")", depth+1)
	case reflect.Struct:
		for i := 0; i < v.NumField(); i++ {
			if h := findHoles(v.Field(i), path+"."+v.Type().Field(i).Name, depth+1); h != "" {
				return h
			}
		}
	case reflect.Slice:
		for i := 0; i < v.Len(); i++ {
			if h := findHoles(v.Index(i), fmt.Sprintf("%s[%d]", path, i), depth+1); h != "" {
				return h
			}
		}
	}
	return ""
}

// checkTotal is the C08 oracle. class: accepted | lex | parse | gen | other.
func checkTotal(c SrcCase) (sig, what, class string) {
	sig, what, class = checkTotalOnce(c)
	if sig != "" {
		return
	}
	// "returns exactly one of (program, error)" holds for every call, also the
	// second one on the same text: the verdict must be the same
	sig2, what2, class2 := checkTotalOnce(c)
	if sig2 != "" {
		return sig2, "second Compile of the same source: " + what2, class2
	}
	if class2 != class {
		return "verdict-changes", fmt.Sprintf("Compile(%s): first call %s, second call on the same text %s", clipSrc(c.Src), class, class2), class
	}
	return
}

func clipSrc(s string) string {
	if len(s) > 300 {
		return fmt.Sprintf("%q...(%d bytes)", s[:300], len(s))
	}
	return fmt.Sprintf("%q", s)
}

func checkTotalOnce(c SrcCase) (sig, what, class string) {
	v, err, p := CompileSafe(c.Src)
	if p != nil {
		return p.Sig(), fmt.Sprintf("Compile(%s) panicked: %s", clipSrc(c.Src), p.Sig()), ""
	}
	if (v == nil) == (err == nil) {
		return "program-and-error", fmt.Sprintf("Compile(%s) returned program=%v error=%v: exactly one must be non-nil", clipSrc(c.Src), v != nil, err), ""
	}
	if err != nil {
		var msg string
		var pe *PanicInfo
		func() {
			defer func() {
				if r := recover(); r != nil {
					pe = capturePanic(r)
				}
			}()
			msg = err.Error()
			if ve, ok := err.(interface{ Message() string }); ok {
				_ = ve.Message()
			}
		}()
		if pe != nil {
			return "error-unprintable", fmt.Sprintf("Compile(%q): printing the error panicked: %s", c.Src, pe.Sig()), ""
		}
		if msg == "" {
			return "error-empty", fmt.Sprintf("Compile(%q): error with an empty message", c.Src), ""
		}
		switch err.(type) {
		case *ast.LexError:
			return "", "", "lex"
		case *ast.ParseError:
			return "", "", "parse"
		case *bytecode.GenError:
			return "", "", "gen"
		}
		return "", "", "other"
	}
	// accepted: the tree must have no holes
	tree, perr := ast.ParseReader(strings.NewReader(c.Src))
	if perr != nil || tree == nil {
		return "reparse-differs", fmt.Sprintf("Compile(%q) accepted but ParseReader fails: %v", c.Src, perr), ""
	}
	for i, cmd := range tree.Commands() {
		if h := findHoles(reflect.ValueOf(&cmd).Elem(), fmt.Sprintf("commands[%d]", i), 0); h != "" {
			return "ast-hole", fmt.Sprintf("Compile(%q) accepted a program whose tree has a hole: %s", c.Src, h), ""
		}
	}
	return "", "", "accepted"
}

func init() {
	registerReplay("compile", func(raw json.RawMessage) (string, string) {
		var c SrcCase
		if err := json.Unmarshal(raw, &c); err != nil {
			return "bad-replay-file", err.Error()
		}
		sig, what, _ := checkTotal(c)
		return sig, what
	})
}

func corpusDir() string {
	if d := os.Getenv("VERIF_CORPUS"); d != "" {
		return d
	}
	return "/verif/corpus"
}

func loadCorpus(t testing.TB) map[string]string {
	files, _ := filepath.Glob(filepath.Join(corpusDir(), "*.vore"))
	sort.Strings(files)
	out := map[string]string{}
	for _, f := range files {
		data, err := os.ReadFile(f)
		if err != nil {
			t.Fatalf("HARNESS: %v", err)
		}
		out[filepath.Base(f)] = string(data)
	}
	if len(out) == 0 {
		t.Fatalf("HARNESS: empty corpus in %s", corpusDir())
	}
	return out
}

var crudeTokRe = regexp.MustCompile(`(?s)--\(.*?\)--|--[^\n]*|'(?:\\.|[^'\\])*'|"(?:\\.|[^"\\])*"|@/[^/]*/|[A-Za-z][A-Za-z0-9]*|[0-9]+|==|!=|<=|>=|:=|\S`)

// crudeTokens splits a source text into tokens (good enough to mutate corpus
// programs; it does not need to agree with the real lexer).
func crudeTokens(src string) []string { return crudeTokRe.FindAllString(src, -1) }

func sortedKeys(m map[string]string) []string {
	ks := make([]string, 0, len(m))
	for k := range m {
		ks = append(ks, k)
	}
	sort.Strings(ks)
	return ks
}

type c08Runner struct {
	t  *testing.T
	st *Stats
}

func (r c08Runner) run(src string, origin string) {
	if loopProduct(src) > 4096 {
		r.st.Count("excluded_loop_product_K3")
		return
	}
	c := SrcCase{Src: src}
	r.st.Eval()
	SetInflight(func() string { return jsonStr(Failure{Property: "C08", Kind: "compile", Case: c}) })
	sig, what, class := checkTotal(c)
	ClearInflight()
	if sig != "" {
		Fail(r.t, Failure{Property: "C08", Kind: "compile", What: what, Case: c, Sig: sig})
	}
	r.st.Count("class_" + class)
	r.st.Count("origin_" + origin)
	if class != "lex" {
		r.st.NonTrivial(src, func() any { return map[string]any{"src": src, "class": class, "origin": origin} })
	}
}

func TestC08Corpus(t *testing.T) {
	seedNote(t)
	StartWatchdog("C08", 60*time.Second)
	st := NewStats("C08", "corpus", "exhaustive over the corpus (docs/examples and every source string of the repository's tests): each program, every byte prefix, and every single-token deletion / duplication / adjacent swap; plus every \\xHH escape 00..ff in both letter cases and every backslash + byte pair in string literals, regex literals, ranges, with-lists and transforms; oracle: Compile returns exactly one of (program, error), the error prints, no panic, accepted trees have no nil holes; non-trivial = got past the lexer; distinct by input bytes")
	st.Exhaustive = true
	defer st.Write()
	r := c08Runner{t, st}
	corpus := loadCorpus(t)
	nshards := envInt("VERIF_NSHARDS", 1)
	shardIdx := envInt("VERIF_SHARD_INDEX", 0)
	if shardIdx == 0 {
		// every two-digit hex escape (0x00..0xff, both letter cases) and every
		// backslash + byte pair, in each place an escape can be written
		for c := 0; c < 256; c++ {
			for _, hh := range []string{fmt.Sprintf("%02x", c), fmt.Sprintf("%02X", c)} {
				for _, f := range []string{"find all '\\x%s'", "find all \"a\\x%sb\"", "find all @/\\x%s/", "find all in '\\x%s' to 'z'", "replace all 'a' with '\\x%s'", "set f to transform return '\\x%s' end replace all 'a' with f"} {
					r.run(fmt.Sprintf(f, hh), "escape")
				}
			}
			for _, f := range []string{"find all '\\%s'", "find all \"a\\%sb\"", "find all @/\\%s/", "find all @/[\\%s]/"} {
				r.run(fmt.Sprintf(f, string([]byte{byte(c)})), "escape")
			}
		}
	}
	// statement forms the repository's tests and examples do not use
	corpus["extra_set_matches"] = "set m to matches find all 'a' find all 'b'"
	corpus["extra_set_matches_replace"] = "find all 'c'\nset m to matches replace top 2 'a' with 'b' -- todo"
	corpus["extra_set_function"] = "set f to function if matchLength > 1 then return 'l' else return 's' end end replace all at least 1 'a' with f '!'"
	corpus["extra_empty_replace"] = "replace top 3 with 'x' find last 1"
	for i, name := range sortedKeys(corpus) {
		if i%nshards != shardIdx {
			continue
		}
		src := corpus[name]
		r.run(src, "corpus")
		for p := 0; p < len(src); p++ {
			r.run(src[:p], "prefix")
		}
		toks := crudeTokens(src)
		if len(toks) <= 400 {
			for _, m := range TokenMutations(toks) {
				r.run(strings.Join(m, " "), "tokmut")
			}
		}
	}
}

func genC08Input(t *rapid.T) (src string, origin string) {
	switch rapid.SampledFrom([]string{"valid", "prefix", "prefix", "tokmut", "tokmut", "tokmut", "soup", "soup", "bytes", "regex", "regex", "regexprefix", "layout", "unicode", "unicode", "deepnest", "long"}).Draw(t, "origin") {
	case "long":
		// sources of 4..9 kB: a valid program, one of its token mutants or a prefix,
		// made long by a separator of thousands of bytes in a drawn gap, or by many
		// commands (tokens then fall on every offset, also on 4096 and 8192)
		p, _, _ := GenFullProgram(t, FullOpts{Wide: true, Transforms: true, MaxCmds: 2})
		toks := p.Tokens()
		var src string
		if rapid.Bool().Draw(t, "longsep") {
			seps := make([]string, len(toks)+1)
			for j := range seps {
				seps[j] = " "
			}
			seps[0], seps[len(toks)] = "", ""
			gap := rapid.IntRange(0, len(toks)).Draw(t, "longgap")
			n := rapid.SampledFrom([]int{4000, 4090, 4096, 4100, 4200, 8150, 8200}).Draw(t, "longn") - rapid.IntRange(0, 60).Draw(t, "longjit")
			seps[gap] = longSep(rapid.SampledFrom(longSepKinds).Draw(t, "longkind"), n)
			src = Layout(toks, seps)
		} else {
			one := strings.Join(toks, " ")
			if len(one) < 8 || loopProduct(one) > 1 || strings.Contains(one, "set ") {
				// repeated bounds would multiply in the K3 exclusion, repeated definitions clash
				one = rapid.SampledFrom([]string{"find all 'a' 'b'", "find all maybe digit \"b\" or letter = x", "replace all @/a+b/ with 'c' value", "find top 1 in 'a' to 'f', \"\\x41\" --c"}).Draw(t, "longone")
			}
			src = strings.TrimSpace(strings.Repeat(one+"\n", 4200/len(one)+rapid.IntRange(1, 3).Draw(t, "longrep")))
		}
		switch rapid.IntRange(0, 3).Draw(t, "longcut") {
		case 0:
			src = src[:rapid.IntRange(len(src)*9/10, len(src)).Draw(t, "longcutat")]
		case 1:
			i := rapid.IntRange(len(src)/2, len(src)-1).Draw(t, "longdel")
			if i < len(src) {
				src = src[:i] + src[i+1:]
			}
		}
		return src, "long"
	case "deepnest":
		// nesting 8..48 levels deep: cost must stay linear in the depth
		d := rapid.IntRange(8, 48).Draw(t, "nestdepth")
		cut := rapid.IntRange(0, 3).Draw(t, "nestcut") // 0: balanced, else: that many closers missing
		closers := d - cut
		if cut == 0 {
			closers = d
		}
		switch rapid.IntRange(0, 13).Draw(t, "nestkind") {
		case 12:
			// every group is the LEFT operand of an `or` (case 2 nests on the right)
			return "find all " + strings.Repeat("( ", d) + "'a'" + strings.Repeat(" ) or 'b'", closers), "deepnest"
		case 13:
			// the same inside a capture, a loop and a `not in`-free alternation of groups
			return "find all " + strings.Repeat("( ", d) + "'a' = v" + strings.Repeat(" ) or ( maybe 'b' )", closers), "deepnest"
		case 10, 11:
			// a chain of definitions, each using the previous one twice (with or without
			// a predicate): the program must stay linear in the length of the chain
			var b strings.Builder
			pred := ""
			if rapid.Bool().Draw(t, "chainpred") {
				pred = " begin return matchLength > 0 end"
			}
			levels := d/2 + 8
			// names without digits (the K3 exclusion multiplies every digit run)
			name := func(i int) string { return "p" + string(rune('a'+i/26)) + string(rune('a'+i%26)) }
			b.WriteString("set " + name(0) + " to pattern 'a'" + pred + " ")
			for i := 1; i <= levels; i++ {
				fmt.Fprintf(&b, "set %s to pattern %s maybe %s%s ", name(i), name(i-1), name(i-1), pred)
			}
			b.WriteString("find all " + name(levels))
			return b.String(), "deepnest"
		case 7:
			// a long left-deep chain of binary operators (cost must stay linear in its length)
			return "set f to transform return match" + strings.Repeat(" + '-' + match", d/2+12) + " end replace all 'a' with f", "deepnest"
		case 8:
			return "set p to pattern any begin return match == 'a'" + strings.Repeat(" or match == 'b'", d+10) + " end find all p", "deepnest"
		case 9:
			return "set f to transform return 1" + strings.Repeat(" * 2 - 1", d/2+12) + " end replace all 'a' with f", "deepnest"
		case 0:
			return "find all " + strings.Repeat("( ", d) + "'a'" + strings.Repeat(" )", closers), "deepnest"
		case 1:
			return "find all " + strings.Repeat("maybe ( ", d) + "'a'" + strings.Repeat(" )", closers), "deepnest"
		case 2:
			return "find all " + strings.Repeat("( 'a' or ", d) + "'b'" + strings.Repeat(" )", closers), "deepnest"
		case 3:
			return "set f to transform return " + strings.Repeat("( ", d) + "1" + strings.Repeat(" )", closers) + " end replace all 'a' with f", "deepnest"
		case 4:
			return "set f to transform " + strings.Repeat("if true then ", d) + "return 'x' " + strings.Repeat("end ", closers) + "return 'y' end replace all 'a' with f", "deepnest"
		case 5:
			return "find all @/" + strings.Repeat("(?:", d) + "a" + strings.Repeat(")", closers) + "/", "deepnest"
		default:
			return "find all " + strings.Repeat("{ ", d/4+1) + "'a'" + strings.Repeat(" } = s", min(closers, d/4+1)), "deepnest"
		}
	case "unicode":
		// a valid program or a soup with one or two characters replaced by (or followed
		// by) non-ASCII digits, letters, blanks and case-folding oddities
		var base string
		switch rapid.IntRange(0, 4).Draw(t, "ubase") {
		case 0, 1:
			p, _, _ := GenFullProgram(t, FullOpts{Wide: true, Transforms: true, MaxCmds: 2})
			base = p.Source()
		case 2:
			base = rapid.SampledFrom(escapeHeavySources).Draw(t, "uescapes")
		default:
			base = GenTokenSoup(t)
		}
		rs := []rune(base)
		for n := rapid.IntRange(1, 2).Draw(t, "nsubst"); n > 0 && len(rs) > 0; n-- {
			i := rapid.IntRange(0, len(rs)-1).Draw(t, "upos")
			u := []rune(rapid.SampledFrom(unicodeOddities).Draw(t, "uchar"))
			if rapid.IntRange(0, 2).Draw(t, "confusable") == 0 {
				// the look-alike of the character at a drawn position: fullwidth forms of
				// ASCII letters and digits, other decimal digit blocks for digits
				var cands []int
				for k, r := range rs {
					if r >= '0' && r <= '9' || r >= 'a' && r <= 'z' || r >= 'A' && r <= 'Z' {
						cands = append(cands, k)
					}
				}
				if len(cands) > 0 {
					i = cands[rapid.IntRange(0, len(cands)-1).Draw(t, "cpos")]
					r := rs[i]
					alts := []rune{r + 0xfee0}
					if r >= '0' && r <= '9' {
						alts = append(alts, 0x660+(r-'0'), 0x966+(r-'0'), 0x1d7d8+(r-'0'))
					}
					rs[i] = rapid.SampledFrom(alts).Draw(t, "lookalike")
					continue
				}
			}
			if rapid.Bool().Draw(t, "uinsert") {
				rs = append(rs[:i], append(append([]rune{}, u...), rs[i:]...)...)
			} else {
				rs = append(rs[:i], append(append([]rune{}, u...), rs[i+1:]...)...)
			}
		}
		return string(rs), "unicode"
	case "valid":
		p, _, _ := GenFullProgram(t, FullOpts{Wide: true, Transforms: true, MaxCmds: 2})
		return p.Source(), "valid"
	case "prefix":
		p, _, _ := GenFullProgram(t, FullOpts{Wide: true, Transforms: true, MaxCmds: 2})
		s := p.Source()
		return s[:rapid.IntRange(0, len(s)).Draw(t, "cut")], "prefix"
	case "tokmut":
		p, _, _ := GenFullProgram(t, FullOpts{Wide: true, Transforms: true, MaxCmds: 2})
		toks := p.Tokens()
		i := rapid.IntRange(0, len(toks)-1).Draw(t, "muti")
		switch rapid.IntRange(0, 5).Draw(t, "mutkind") {
		case 4:
			// insertion of a vocabulary token
			ins := rapid.SampledFrom(soupVocabulary).Draw(t, "ins")
			toks = append(append(append([]string{}, toks[:i]...), ins), toks[i:]...)
		case 5:
			// the tail replaced by one or two vocabulary tokens (the input ends in an odd place)
			tail := rapid.SliceOfN(rapid.SampledFrom(soupVocabulary), 1, 2).Draw(t, "tail")
			toks = append(append([]string{}, toks[:i+1]...), tail...)
		case 0:
			toks = append(append([]string{}, toks[:i]...), toks[i+1:]...)
		case 1:
			toks = append(append(append([]string{}, toks[:i+1]...), toks[i]), toks[i+1:]...)
		case 2:
			if i+1 < len(toks) {
				toks = append([]string{}, toks...)
				toks[i], toks[i+1] = toks[i+1], toks[i]
			}
		default:
			toks = append([]string{}, toks...)
			toks[i] = rapid.SampledFrom(soupVocabulary).Draw(t, "repl")
		}
		return strings.Join(toks, " "), "tokmut"
	case "soup":
		return GenTokenSoup(t), "soup"
	case "bytes":
		b := rapid.SliceOfN(rapid.Byte(), 0, 40).Draw(t, "bytes")
		return string(b), "bytes"
	case "regex":
		return "find all @/" + GenRegexBody(t) + "/", "regex"
	case "regexprefix":
		re := rapid.SampledFrom(append(append([]string{}, smallRegexes...), `(?<n>a|b){1,2}\k<n>`, `((a)(b))\3\2\1`, `[^a-c0]*?x{2,}`)).Draw(t, "vre")
		return "find all @/" + re[:rapid.IntRange(0, len(re)).Draw(t, "recut")] + "/", "regexprefix"
	default:
		p, _, _ := GenFullProgram(t, FullOpts{Wide: true, Transforms: true, MaxCmds: 2})
		toks := p.Tokens()
		return Layout(toks, GenLayout(t, toks)), "layout"
	}
}

// sources dense in escapes, numbers and keywords for the look-alike substitution
var escapeHeavySources = []string{
	`find all '\x41\x4a' "\x7F\x0d"`,
	`find all "\x41" at least 12 '\x4F'`,
	`find skip 10 take 25 between 2 and 13 digit`,
	`find all @/a{2,13}\d[0-9a-f]\x41/`,
	`set f to transform return 10 + 25 * matchLength end replace all 'a' with f '\x30'`,
	`find top 3 in 'a' to 'f', '0' to '9', "\x41"`,
}

var unicodeOddities = []string{"\u0663", "\u0664", "\uff14", "\u096a", "\u00e9", "\u00a0", "\u2028", "\u0130", "\u212a", "\u017f", "\u00df", "\u01c5", "\u2160", "\u00b2", "\ufeff", "\u200b", "\u65e5", "\U0001d7d8", "\x80", "\xff"}

func TestC08Generated(t *testing.T) {
	seedNote(t)
	StartWatchdog("C08", 60*time.Second)
	st := NewStats("C08", "generated", "generated inputs: valid programs of the full generator (all constructs, transforms, predicates, regex, layouts), their byte prefixes, one-token deletions / duplications / swaps / replacements, token soup over the whole vocabulary, random bytes, regex literals over a regex-flavoured alphabet and prefixes of valid regexes, non-ASCII look-alike substitutions, nesting 8..48 deep, sources of 4..9 kB (long separators, many commands); same oracle, and a second Compile of the same text must give the same verdict; non-trivial = got past the lexer; distinct by input bytes")
	defer st.Write()
	rapid.Check(t, func(rt *rapid.T) {
		src, origin := genC08Input(rt)
		if loopProduct(src) > 4096 {
			st.Count("excluded_loop_product_K3")
			return
		}
		c := SrcCase{Src: src}
		st.Eval()
		SetInflight(func() string { return jsonStr(Failure{Property: "C08", Kind: "compile", Case: c}) })
		sig, what, class := checkTotal(c)
		ClearInflight()
		if sig != "" {
			Fail(rt, Failure{Property: "C08", Kind: "compile", What: what, Case: c, Sig: sig})
		}
		if origin == "valid" && class != "accepted" {
			rt.Fatalf("HARNESS: generated program is not accepted (%s): %s", class, src)
		}
		st.Count("class_" + class)
		st.Count("origin_" + origin)
		if class != "lex" {
			st.NonTrivial(src, func() any { return map[string]any{"src": src, "class": class, "origin": origin} })
		}
	})
}

// FuzzCompile is the coverage-guided target used by the thorough tier.
func FuzzCompile(f *testing.F) {
	for _, src := range loadCorpus(f) {
		if len(src) < 400 {
			f.Add(src)
		}
	}
	for _, s := range []string{"find all @/a{2,/", "set f to transform return (1 end", "find all 'a' --", "find all '\\x", "replace all at least 1 'a' named", "find all @/(?<n/", "find all @/[a-/", "find all in 'a' to"} {
		f.Add(s)
	}
	f.Fuzz(func(t *testing.T, src string) {
		if len(src) > 300 || loopProduct(src) > 4096 {
			return
		}
		sig, what, _ := checkTotal(SrcCase{Src: src})
		if sig != "" {
			data, _ := json.MarshalIndent(Failure{Property: "C08", Kind: "compile", What: what, Case: SrcCase{Src: src}, Sig: sig}, "", " ")
			os.WriteFile(failPath("C08"), data, 0o644)
			t.Fatalf("VIOLATION-CANDIDATE C08 [%s] %s", sig, what)
		}
	})
}
