package props

import (
	"encoding/json"
	"fmt"
	"os"
	"path/filepath"
	"runtime"
	"strings"
	"testing"
	"time"

	"github.com/jmeaster30/vore/libvore/engine"
	"pgregory.net/rapid"
)

// CrashCase: an accepted program run on a text (optionally through a file).
type CrashCase struct {
	Src   string `json:"src"`
	Text  string `json:"text"`
	File  bool   `json:"file"`
	Limit int64  `json:"limit,omitempty"` // VM step limit (0 = default)
}

const vmLimitCrash = 200_000

// known finding signatures (K1, K2): process code with a zero divisor or a
// branch-dependent variable type. They are excluded from generation by
// construction; token mutants can still hit them and are then counted, not reported.
func isKnownProcessFinding(sig string) string {
	switch {
	case strings.Contains(sig, "integer divide by zero"):
		return "K1"
	case strings.Contains(sig, "SHOULDN'T GET HERE"):
		return "K2"
	}
	return ""
}

func writeTemp(text string) (dir, path string) {
	dir, err := os.MkdirTemp(scratchDir(), "c09-")
	if err != nil {
		panic(err)
	}
	path = filepath.Join(dir, "input.txt")
	if err := os.WriteFile(path, []byte(text), 0o644); err != nil {
		panic(err)
	}
	return
}

var fileRuns int

// checkNoCrash: status "ok" | "rejected" | "discard".
func checkNoCrash(c CrashCase) (sig, what, status string) {
	v, err, p := CompileSafe(c.Src)
	if p != nil {
		// totality of Compile is C08's property; a crash here is still a crash
		return p.Sig(), "Compile panicked: " + p.Sig(), ""
	}
	if err != nil {
		return "", "", "rejected"
	}
	var res RunResult
	limit := int64(vmLimitCrash)
	if c.Limit > 0 {
		limit = c.Limit
	}
	if c.File {
		dir, path := writeTemp(c.Text)
		res = RunFilesSafe(v, []string{path}, engine.NOTHING, limit)
		os.RemoveAll(dir)
		fileRuns++
		if fileRuns%200 == 0 {
			runtime.GC() // RunFiles does not close the reader of a find command
		}
	} else {
		res = RunSafe(v, c.Text, limit)
	}
	if res.OverBudget {
		return "", "", "discard"
	}
	if res.Panic != nil {
		via := "Run"
		if c.File {
			via = "RunFiles"
		}
		return res.Panic.Sig(), fmt.Sprintf("%s on %q: %s panicked: %s", c.Src, c.Text, via, res.Panic.Sig()), ""
	}
	return "", "", "ok"
}

func init() {
	registerReplay("crash", func(raw json.RawMessage) (string, string) {
		var c CrashCase
		if err := json.Unmarshal(raw, &c); err != nil {
			return "bad-replay-file", err.Error()
		}
		sig, what, _ := checkNoCrash(c)
		return sig, what
	})
}

func TestC09(t *testing.T) {
	seedNote(t)
	StartWatchdog("C09", 90*time.Second)
	st := NewStats("C09", "crash", "accepted programs of the full generator (all constructs incl. regex, named loops, whole *, empty groups and literals, empty-capable captures with back-references, predicates and transforms with arithmetic on match) and still-accepted one-token mutants x (sampled text, every prefix of it, the empty text); a tenth of the runs through RunFiles on a temp file (incl. the empty file); any panic is a violation; non-trivial = the text is empty or a proper prefix of a text sampled from the pattern; distinct by (source,text,file)")
	defer st.Write()
	rapid.Check(t, func(t *rapid.T) {
		prog, globals, body := GenFullProgram(t, FullOpts{Wide: true, Transforms: true, MaxCmds: 2})
		toks := prog.Tokens()
		mutant := rapid.IntRange(0, 3).Draw(t, "mutant") == 0
		if mutant {
			i := rapid.IntRange(0, len(toks)-1).Draw(t, "muti")
			switch rapid.IntRange(0, 2).Draw(t, "mutkind") {
			case 0:
				toks = append(append([]string{}, toks[:i]...), toks[i+1:]...)
			case 1:
				toks = append(append(append([]string{}, toks[:i+1]...), toks[i]), toks[i+1:]...)
			default:
				if i+1 < len(toks) {
					toks = append([]string{}, toks...)
					toks[i], toks[i+1] = toks[i+1], toks[i]
				}
			}
			for _, tk := range toks {
				if tk == "loop" || tk == "continue" {
					st.Count("mutant_skipped_process_loop")
					return
				}
			}
		}
		src := strings.Join(toks, " ")
		if loopProduct(src) > 4096 {
			st.Count("excluded_loop_product_K3")
			return
		}
		sampled := SampleFromPattern(t, globals, body)
		noise := GenRandomText(t, 2, true)
		full := sampled + noise
		if len(full) > 16 {
			full = full[:16]
		}
		viaFile := rapid.IntRange(0, 9).Draw(t, "file") == 0
		texts := []string{full, ""}
		for p := 1; p < len(full); p++ {
			texts = append(texts, full[:p])
		}
		for _, text := range texts {
			c := CrashCase{Src: src, Text: text, File: viaFile}
			if mutant {
				// a mutant may recurse without consuming (outside the property's scope): every
				// VM step copies the call stack, so the limit has to be small
				c.Limit = 5000
			}
			st.Eval()
			SetInflight(func() string { return jsonStr(Failure{Property: "C09", Kind: "crash", Case: c}) })
			sig, what, status := checkNoCrash(c)
			ClearInflight()
			if sig != "" {
				if k := isKnownProcessFinding(sig); k != "" && mutant {
					st.Count("mutant_hit_known_finding_" + k)
					continue
				}
				Fail(t, Failure{Property: "C09", Kind: "crash", What: what, Case: c, Sig: sig})
			}
			if status == "rejected" {
				if !mutant {
					t.Fatalf("HARNESS: generated program rejected: %s", src)
				}
				st.Count("mutant_rejected")
				return
			}
			if status == "discard" {
				st.Count("discarded_vm_budget")
				continue
			}
			st.Count("runs_ok")
			if viaFile {
				st.Count("via_file")
			}
			if mutant {
				st.Count("mutant_runs")
			}
			if text == "" || (len(text) < len(sampled)) {
				st.NonTrivial(fmt.Sprint(src, "\x00", text, viaFile), func() any {
					return map[string]any{"src": src, "text": text, "file": viaFile, "mutant": mutant}
				})
			}
		}
	})
}
