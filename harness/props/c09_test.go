package props

import (
	"encoding/json"
	"fmt"
	"os"
	"path/filepath"
	"runtime"
	"strings"
	"testing"
	"time"

	"github.com/jmeaster30/vore/libvore/engine"
	"pgregory.net/rapid"
)

// CrashCase: an accepted program run on a text (optionally through a file).
type CrashCase struct {
	Src   string `json:"src"`
	Text  string `json:"text"`
	File  bool   `json:"file"`
	Limit int64  `json:"limit,omitempty"` // VM step limit (0 = default)
}

const vmLimitCrash = 200_000

// known finding signatures (K1, K2): process code with a zero divisor or a
// branch-dependent variable type. They are excluded from generation by
// construction; token mutants can still hit them and are then counted, not reported.
func isKnownProcessFinding(sig string) string {
	switch {
	case strings.Contains(sig, "integer divide by zero"):
		return "K1"
	case strings.Contains(sig, "SHOULDN'T GET HERE"):
		return "K2"
	}
	return ""
}

func writeTemp(text string) (dir, path string) {
	dir, err := os.MkdirTemp(scratchDir(), "c09-")
	if err != nil {
		panic(err)
	}
	path = filepath.Join(dir, "input.txt")
	if err := os.WriteFile(path, []byte(text), 0o644); err != nil {
		panic(err)
	}
	return
}

var fileRuns int

// checkNoCrash: status "ok" | "rejected" | "discard".
func checkNoCrash(c CrashCase) (sig, what, status string) {
	v, err, p := CompileSafe(c.Src)
	if p != nil {
		// totality of Compile is C08's property; a crash here is still a crash
		return p.Sig(), "Compile panicked: " + p.Sig(), ""
	}
	if err != nil {
		return "", "", "rejected"
	}
	var res RunResult
	limit := int64(vmLimitCrash)
	if c.Limit > 0 {
		limit = c.Limit
	}
	if c.File {
		dir, path := writeTemp(c.Text)
		res = RunFilesSafe(v, []string{path}, engine.NOTHING, limit)
		os.RemoveAll(dir)
		fileRuns++
		if fileRuns%200 == 0 {
			runtime.GC() // RunFiles does not close the reader of a find command
		}
	} else {
		res = RunSafe(v, c.Text, limit)
	}
	if res.OverBudget {
		return "", "", "discard"
	}
	if res.Panic != nil {
		via := "Run"
		if c.File {
			via = "RunFiles"
		}
		return res.Panic.Sig(), fmt.Sprintf("%s on %q: %s panicked: %s", c.Src, c.Text, via, res.Panic.Sig()), ""
	}
	return "", "", "ok"
}

func init() {
	registerReplay("crash", func(raw json.RawMessage) (string, string) {
		var c CrashCase
		if err := json.Unmarshal(raw, &c); err != nil {
			return "bad-replay-file", err.Error()
		}
		sig, what, _ := checkNoCrash(c)
		return sig, what
	})
}

// TestC09OpenCells: process code built around every operator x operand-type cell the
// documented table does NOT list. Compile normally rejects it (then nothing is
// asserted here); whatever Compile accepts must run without crashing.
func TestC09OpenCells(t *testing.T) {
	seedNote(t)
	st := NewStats("C09", "cells", "exhaustive: every binary operator x operand-type pair and unary operator x type that the documented table does not list (incl. the cell bool (- * / %) number), as a `set` source and as a return value, in a transform and in a predicate; Compile may reject (nothing asserted) but accepted code must run on two texts without panicking; every case non-trivial, distinct by source")
	st.Exhaustive = true
	defer st.Write()
	types := []PType{TString, TNumber, TBool}
	var exprs []*Expr
	for _, op := range binaryOps {
		for _, lt := range types {
			for _, rt := range types {
				if res, _ := TypeOfBin(op, lt, rt); res != TError {
					continue
				}
				l, _ := typedOperand(lt, false)
				r, _ := typedOperand(rt, false)
				exprs = append(exprs, Bin(op, l, r))
				// the same cell with computed operands
				if lt == TBool {
					exprs = append(exprs, Bin(op, Bin("==", Var("match", TString), Str("a")), r))
				}
			}
		}
	}
	for _, op := range unaryOps {
		for _, tp := range types {
			if TypeOfUn(op, tp) != TError {
				continue
			}
			o, _ := typedOperand(tp, false)
			exprs = append(exprs, Un(op, o))
		}
	}
	for _, e := range exprs {
		es := exprString(e, true)
		for _, src := range []string{
			"set f to transform set v to " + es + " return 'x' end replace all any with f",
			"set f to transform return '' + ( " + es + " ) end replace all any with f",
			"set p to pattern any begin set v to " + es + " return true end find all p",
		} {
			st.Eval()
			v, err, p := CompileSafe(src)
			if p != nil {
				c := CrashCase{Src: src, Text: "ab"}
				Fail(t, Failure{Property: "C09", Kind: "crash", What: "Compile panicked on " + src + ": " + p.Sig(), Case: c, Sig: p.Sig()})
			}
			if err != nil {
				st.Count("rejected_by_compile")
				st.NonTrivial(src, func() any { return map[string]any{"src": src, "compile": "rejected"} })
				continue
			}
			st.Count("accepted_by_compile")
			for _, text := range []string{"ab", "5"} {
				res := RunSafe(v, text, vmLimitCrash)
				if res.Panic != nil {
					c := CrashCase{Src: src, Text: text}
					Fail(t, Failure{Property: "C09", Kind: "crash", What: fmt.Sprintf("%s on %q: accepted by Compile, but Run panicked: %s", src, text, res.Panic.Sig()), Case: c, Sig: res.Panic.Sig()})
				}
			}
			st.NonTrivial(src, func() any { return map[string]any{"src": src, "compile": "accepted"} })
		}
	}
	// what a name can stand for when process code or a with-list reads it: a capture, a
	// named loop (a table, not a string), a capture inside a named loop, a definition, a
	// built-in, nothing at all
	for _, read := range []string{"return '<' + NAME + '>'", "if NAME == '' then return 'e' end return 'n'", "return head NAME + tail NAME", "set v to NAME return v + matchLength"} {
		for _, name := range []string{"d", "parts", "w", "nosuch", "lineNumber", "f", "value"} {
			body := strings.ReplaceAll(read, "NAME", name)
			for _, src := range []string{
				"set w to pattern at least 1 letter set f to transform " + body + " end replace all w at least 0 (digit = d) named parts with f ':' " + name,
				"set f to transform " + body + " end replace all at least 1 ((digit = d) maybe '-') named parts fewest letter with f f",
				"set w to pattern digit begin " + strings.ReplaceAll(strings.ReplaceAll(body, "return 'e'", "return true"), "return 'n'", "return false") + " end find all at least 1 w named parts",
			} {
				st.Eval()
				v, err, p := CompileSafe(src)
				if p != nil {
					Fail(t, Failure{Property: "C09", Kind: "crash", What: "Compile panicked on " + src + ": " + p.Sig(), Case: CrashCase{Src: src, Text: "ab"}, Sig: p.Sig()})
				}
				if err != nil {
					st.Count("rejected_by_compile")
					continue
				}
				st.Count("accepted_by_compile")
				for _, text := range []string{"ab12 c3-4d", "7", ""} {
					res := RunSafe(v, text, vmLimitCrash)
					if res.Panic != nil {
						Fail(t, Failure{Property: "C09", Kind: "crash", What: fmt.Sprintf("%s on %q: accepted by Compile, but Run panicked: %s", src, text, res.Panic.Sig()), Case: CrashCase{Src: src, Text: text}, Sig: res.Panic.Sig()})
					}
				}
				st.NonTrivial(src, func() any { return map[string]any{"src": src, "compile": "accepted"} })
			}
		}
	}
}

func TestC09(t *testing.T) {
	seedNote(t)
	StartWatchdog("C09", 90*time.Second)
	st := NewStats("C09", "crash", "accepted programs of the full generator (all constructs incl. regex, named loops, whole *, empty groups and literals, empty-capable captures with back-references, predicates and transforms with arithmetic on match) and still-accepted one-token mutants x (sampled text, every prefix of it, the empty text); a tenth of the runs through RunFiles on a temp file (incl. the empty file); any panic is a violation; non-trivial = the text is empty or a proper prefix of a text sampled from the pattern; distinct by (source,text,file)")
	defer st.Write()
	rapid.Check(t, func(t *rapid.T) {
		prog, globals, body := GenFullProgram(t, FullOpts{Wide: true, Transforms: true, MaxCmds: 2})
		toks := prog.Tokens()
		mutant := rapid.IntRange(0, 3).Draw(t, "mutant") == 0
		if mutant {
			i := rapid.IntRange(0, len(toks)-1).Draw(t, "muti")
			switch rapid.IntRange(0, 2).Draw(t, "mutkind") {
			case 0:
				toks = append(append([]string{}, toks[:i]...), toks[i+1:]...)
			case 1:
				toks = append(append(append([]string{}, toks[:i+1]...), toks[i]), toks[i+1:]...)
			default:
				if i+1 < len(toks) {
					toks = append([]string{}, toks...)
					toks[i], toks[i+1] = toks[i+1], toks[i]
				}
			}
			for _, tk := range toks {
				if tk == "loop" || tk == "continue" {
					st.Count("mutant_skipped_process_loop")
					return
				}
			}
		}
		src := strings.Join(toks, " ")
		if loopProduct(src) > 4096 {
			st.Count("excluded_loop_product_K3")
			return
		}
		sampled := SampleFromPattern(t, globals, body)
		noise := GenRandomText(t, 2, true)
		full := sampled + noise
		if len(full) > 16 {
			full = full[:16]
		}
		viaFile := rapid.IntRange(0, 9).Draw(t, "file") == 0
		texts := []string{full, ""}
		for p := 1; p < len(full); p++ {
			texts = append(texts, full[:p])
		}
		for _, text := range texts {
			c := CrashCase{Src: src, Text: text, File: viaFile}
			if mutant {
				// a mutant may recurse without consuming (outside the property's scope): every
				// VM step copies the call stack, so the limit has to be small
				c.Limit = 5000
			}
			st.Eval()
			SetInflight(func() string { return jsonStr(Failure{Property: "C09", Kind: "crash", Case: c}) })
			sig, what, status := checkNoCrash(c)
			ClearInflight()
			if sig != "" {
				if k := isKnownProcessFinding(sig); k != "" && mutant {
					st.Count("mutant_hit_known_finding_" + k)
					continue
				}
				Fail(t, Failure{Property: "C09", Kind: "crash", What: what, Case: c, Sig: sig})
			}
			if status == "rejected" {
				if !mutant {
					// whether a generated program is accepted is C08's business (its "valid"
					// inputs come from the same generator and must be accepted there); here
					// the search for crashes goes on
					st.Count("generated_program_rejected")
					return
				}
				st.Count("mutant_rejected")
				return
			}
			if status == "discard" {
				st.Count("discarded_vm_budget")
				continue
			}
			st.Count("runs_ok")
			if viaFile {
				st.Count("via_file")
			}
			if mutant {
				st.Count("mutant_runs")
			}
			if text == "" || (len(text) < len(sampled)) {
				st.NonTrivial(fmt.Sprint(src, "\x00", text, viaFile), func() any {
					return map[string]any{"src": src, "text": text, "file": viaFile, "mutant": mutant}
				})
			}
		}
	})
}

// ---------------------------------------------------------------- large files

var c09FilePrograms = append(append([]string{}, c07Programs...),
	"find all 'need' between 2100 and 2200 any 'QQ'",
	"find all 'n' between 2300 and 2400 any fewest 'QQ'",
	"replace all 'needle' with ''",
	"replace all 'eed' with value value",
	"find all (between 1 and 3 any) = x 'needle' x",
)

func TestC09Files(t *testing.T) {
	seedNote(t)
	StartWatchdog("C09", 120*time.Second)
	st := NewStats("C09", "files", "programs with the engine's file access patterns (anchors reading one byte back, back-references, attempts that consume more than half a buffer window and then fail, replace commands that re-read the file from the start) run through RunFiles in modes NOTHING and NEW on files of size 0, 1, around 2048/4096/6144/8192 and up to 20000 with tokens planted at window boundaries; any panic is a violation; non-trivial = file larger than the 4096-byte buffer; distinct by (program, mode, content)")
	defer st.Write()
	rapid.Check(t, func(t *rapid.T) {
		content, _ := genPlantedContent(t)
		src := rapid.SampledFrom(c09FilePrograms).Draw(t, "prog")
		if strings.Contains(src, "2100") || strings.Contains(src, "2300 and") {
			// the long-attempt programs are expensive: keep one in four
			if rapid.IntRange(0, 3).Draw(t, "heavy") != 0 {
				src = rapid.SampledFrom(c07Programs).Draw(t, "lightprog")
			}
		}
		mode := rapid.SampledFrom([]string{"NOTHING", "NEW"}).Draw(t, "mode")
		c := FileCase{Src: src, Content: content, Mode: mode}
		st.Eval()
		SetInflight(func() string { return jsonStr(Failure{Property: "C09", Kind: "filecrash", Case: c}) })
		sig, what := checkFileNoCrash(c)
		ClearInflight()
		if sig != "" {
			Fail(t, Failure{Property: "C09", Kind: "filecrash", What: what, Case: c, Sig: sig})
		}
		if len(content) > 4096 {
			st.NonTrivial(src+mode+content, func() any { return map[string]any{"src": src, "mode": mode, "size": len(content)} })
		}
	})
}

func checkFileNoCrash(c FileCase) (sig, what string) {
	v, err, p := CompileSafe(c.Src)
	if p != nil || err != nil {
		return "compile-error", c.Src
	}
	dir, derr := os.MkdirTemp(scratchDir(), "c09f-")
	if derr != nil {
		panic(derr)
	}
	defer os.RemoveAll(dir)
	path := filepath.Join(dir, "input.txt")
	os.WriteFile(path, []byte(c.Content), 0o644)
	res := RunFilesSafe(v, []string{path}, modeOf(c.Mode), vmLimitFile)
	fileRuns++
	if fileRuns%100 == 0 {
		runtime.GC()
	}
	if res.Panic != nil {
		return res.Panic.Sig(), fmt.Sprintf("%s on a %d-byte file in mode %s: RunFiles panicked: %s", c.Src, len(c.Content), c.Mode, res.Panic.Sig())
	}
	return "", ""
}

func init() {
	registerReplay("filecrash", func(raw json.RawMessage) (string, string) {
		var c FileCase
		if err := json.Unmarshal(raw, &c); err != nil {
			return "bad-replay-file", err.Error()
		}
		return checkFileNoCrash(c)
	})
}

// NamesCase: RunFiles with processFilenames = true searches the *names* of the
// files (and of the entries of a directory) instead of their contents. Find commands
// only: a replace command would rename files.
type NamesCase struct {
	Src   string   `json:"src"`
	Names []string `json:"names"` // files created in a scratch directory, passed in this order
	Dir   bool     `json:"dir"`   // pass the directory itself instead of the files
}

func checkNamesNoCrash(c NamesCase) (sig, what string, nmatch int) {
	v, err, p := CompileSafe(c.Src)
	if p != nil || err != nil {
		return "compile-error", c.Src, 0
	}
	dir, derr := os.MkdirTemp(scratchDir(), "c09n-")
	if derr != nil {
		panic(derr)
	}
	defer os.RemoveAll(dir)
	var paths []string
	for _, n := range c.Names {
		os.WriteFile(filepath.Join(dir, n), []byte("content of "+n), 0o644)
		paths = append(paths, filepath.Join(dir, n))
	}
	if c.Dir {
		paths = []string{dir}
	}
	before := snapshotDir(dir)
	setStepLimit(vmLimitFile)
	var res RunResult
	func() {
		defer func() {
			res.Steps = vmSteps()
			setStepLimit(0)
			if r := recover(); r != nil {
				if isBudgetPanic(r) {
					res.OverBudget = true
					return
				}
				res.Panic = capturePanic(r)
			}
		}()
		res.Matches = v.RunFiles(paths, engine.NOTHING, true)
	}()
	if res.OverBudget {
		return "", "", 0
	}
	if res.Panic != nil {
		return res.Panic.Sig(), fmt.Sprintf("%s over the names %v (directory passed: %v): RunFiles(processFilenames) panicked: %s", c.Src, c.Names, c.Dir, res.Panic.Sig()), 0
	}
	if d := diffSnap(before, snapshotDir(dir), nil); d != "" {
		return "names-touched-files", fmt.Sprintf("%s over the names %v: a find command changed the directory: %s", c.Src, c.Names, d), 0
	}
	return "", "", len(res.Matches)
}

func init() {
	registerReplay("namescrash", func(raw json.RawMessage) (string, string) {
		var c NamesCase
		if err := json.Unmarshal(raw, &c); err != nil {
			return "bad-replay-file", err.Error()
		}
		sig, what, _ := checkNamesNoCrash(c)
		return sig, what
	})
}

var c09Names = []string{"invoice-2024.txt", "invoice-7.txt", "notes.txt", "a b.txt", "été.md", "x", "report_final_v2.pdf", "12", ".hidden", "ab12ab"}
var c09NamePrograms = []string{
	"find all 'invoice-' (at least 1 digit) = year",
	"find all at least 1 digit",
	"find last 1 '.' (at least 1 letter) = ext file end",
	"find all word start at least 1 letter word end",
	"find top 1 'zzz'",
	"find all 'a' find all 'notes'",
	"set d to pattern at least 1 digit find all d find all '-' d",
	"find skip 1 in 'a', 'b', '1' to '3'",
	"find all @/(\\d+)\\.(txt|md)/",
}

func TestC09Names(t *testing.T) {
	seedNote(t)
	StartWatchdog("C09", 120*time.Second)
	st := NewStats("C09", "names", "find programs (one and two commands, captures, definitions, regex) run through RunFiles(files, NOTHING, processFilenames = true) over 1..5 file names in a drawn order, or over their directory; any panic is a violation and the directory must be unchanged; non-trivial = some name has a match and a later one has none; distinct by (program, names, directory)")
	defer st.Write()
	rapid.Check(t, func(t *rapid.T) {
		c := NamesCase{Src: rapid.SampledFrom(c09NamePrograms).Draw(t, "prog"), Dir: rapid.IntRange(0, 3).Draw(t, "dir") == 0}
		c.Names = rapid.SliceOfNDistinct(rapid.SampledFrom(c09Names), 1, 5, rapid.ID[string]).Draw(t, "names")
		st.Eval()
		SetInflight(func() string { return jsonStr(Failure{Property: "C09", Kind: "namescrash", Case: c}) })
		sig, what, n := checkNamesNoCrash(c)
		ClearInflight()
		if sig == "compile-error" {
			t.Fatalf("HARNESS: does not compile: %s", what)
		}
		if sig != "" {
			Fail(t, Failure{Property: "C09", Kind: "namescrash", What: what, Case: c, Sig: sig})
		}
		if n > 0 {
			st.NonTrivial(jsonStr(c), func() any { return c })
		}
	})
}
