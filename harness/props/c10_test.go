package props

import (
	"encoding/json"
	"fmt"
	"sort"
	"strings"
	"testing"
	"time"

	"pgregory.net/rapid"
)

const c10Budget = 300_000
const c10EnumBudget = 1_000_000

// checkTerminates runs src on text with the step budget; exceeding it is the
// violation C10 is about.
func checkTerminates(c RunCase) (sig, what string, steps int64) {
	v, err, p := CompileSafe(c.Src)
	if p != nil {
		return p.Sig(), "Compile panicked: " + p.Sig(), 0
	}
	if err != nil {
		return "compile-error", firstLine(err.Error()), 0
	}
	budget := int64(c10Budget)
	if c.Limit > 0 {
		budget = c.Limit
	}
	res := runTextOrFile(v, c.Text, c.File, budget)
	if spin := spinning(res, c.Text); spin != "" {
		return "spin", spin, res.Steps
	}
	if res.OverBudget && res.Aborted && c.File {
		// ended by the watchdog (wall time on a busy machine) below the step budget and
		// within the progress measures: no verdict
		return "", "", -1
	}
	if res.OverBudget {
		return "step-budget-exceeded", fmt.Sprintf("Run executed more than %d VM instructions on a %d-byte text", budget, len(c.Text)), res.Steps
	}
	if res.Panic != nil {
		return res.Panic.Sig(), "Run panicked: " + res.Panic.Sig(), res.Steps
	}
	return "", "", res.Steps
}

// spinning tells a spin from a long search by the progress measures of the verif
// hook: one activation of a loop cannot run more iterations than there are bytes
// left to consume plus the one empty iteration the zero-width guard allows (plus
// its minimum), and calls cannot nest deeper than the bytes consumed before each
// recursion plus the number of subroutines. The programs of this property have
// minima <= 1 and at most 2 subroutines; the slack of 8 is far above both. A search
// that is merely long (nested unbounded loops are exponential in the text length)
// stays within the measures however many instructions it takes.
func spinning(res RunResult, text string) string {
	bound := int64(len(text)) + 8
	if res.MaxIter > bound {
		return fmt.Sprintf("a loop ran %d iterations in one activation on a %d-byte text (every iteration but one must consume a byte)", res.MaxIter, len(text))
	}
	if res.MaxDepth > bound {
		return fmt.Sprintf("calls nested %d deep on a %d-byte text (a subroutine consumes a byte before it recurses)", res.MaxDepth, len(text))
	}
	return ""
}

func init() {
	registerReplay("terminates", func(raw json.RawMessage) (string, string) {
		var c RunCase
		if err := json.Unmarshal(raw, &c); err != nil {
			return "bad-replay-file", err.Error()
		}
		sig, what, _ := checkTerminates(c)
		return sig, what
	})
}

func c10Atoms() []*Node {
	atoms := []*Node{
		{K: KLit, S: "a"},
		{K: KLoop, Min: 0, Max: 1, Body: &Node{K: KLit, S: "a"}},
		{K: KSeq},
		{K: KIn, Not: true, Items: []Item{{Kind: 0, S: "a"}}},
		{K: KClass, Class: "any"},
		{K: KIn, Not: true, Items: []Item{{Kind: 0, S: "ab"}, {Kind: 0, S: "b"}}}, // a multi-byte item: near the end of input fewer bytes remain than it is long
	}
	for _, a := range anchorNames {
		atoms = append(atoms, &Node{K: KAnchor, Class: a}, &Node{K: KAnchor, Class: a, Not: true})
	}
	return atoms
}

type loopHead struct {
	min, max int
	fewest   bool
	named    bool
}

func c10Heads() []loopHead {
	var hs []loopHead
	for _, f := range []bool{false, true} {
		hs = append(hs, loopHead{0, 1, f, false}, loopHead{0, -1, f, false}, loopHead{1, -1, f, false}, loopHead{0, 2, f, false}, loopHead{0, 2, f, false})
	}
	// `between 0 and 2` and `at most 2` are the same loop; replace the duplicate by
	// `between 1 and 2` (unrolled once, then 0..1)
	hs[4] = loopHead{1, 2, false, false}
	hs[9] = loopHead{1, 2, true, false}
	hs = append(hs, loopHead{0, -1, false, true})
	// bounds nobody can count up to: only the zero-width guard ends such a loop over
	// a nullable body (the maximum is a counter, not unrolled code)
	hs = append(hs, loopHead{0, 2000000000, false, false}, loopHead{1, 1<<63 - 1, true, false})
	return hs
}

func applyHead(h loopHead, body *Node, id int) *Node {
	n := &Node{K: KLoop, Min: h.min, Max: h.max, Fewest: h.fewest, Body: body}
	if h.named {
		n.Name = fmt.Sprintf("L%d", id)
	}
	return n
}

// c10Level returns all bodies of nesting depth <= d.
func c10Level(d int) []*Node {
	atoms := c10Atoms()
	level := append([]*Node{}, atoms...)
	small := []*Node{atoms[0], atoms[1], atoms[2], {K: KAnchor, Class: "line start"}, {K: KAnchor, Class: "word end", Not: true}}
	heads := c10Heads()
	for depth := 1; depth <= d; depth++ {
		next := append([]*Node{}, level...)
		if depth == 1 {
			for _, x := range small {
				for _, y := range small {
					next = append(next, &Node{K: KOr, Kids: []*Node{x, y}})
				}
			}
		}
		for _, x := range level {
			for hi, h := range heads {
				next = append(next, applyHead(h, x, depth*100+hi))
			}
		}
		level = next
	}
	return level
}

func c10Texts() []string {
	alpha := []string{"a", "b", "\n"}
	texts := []string{}
	var rec func(prefix string, n int)
	rec = func(prefix string, n int) {
		if n == 0 {
			texts = append(texts, prefix)
			return
		}
		for _, c := range alpha {
			rec(prefix+c, n-1)
		}
	}
	for l := 1; l <= 3; l++ {
		rec("", l)
	}
	return texts
}

func hasNullableLoop(n *Node) bool {
	if n == nil {
		return false
	}
	if n.K == KLoop && Nullable(n.Body, nil) {
		return true
	}
	for _, k := range n.Kids {
		if hasNullableLoop(k) {
			return true
		}
	}
	return hasNullableLoop(n.Body)
}

// TestC10Enum: quick = depth 2 complete, thorough = depth 4 complete.
func TestC10Enum(t *testing.T) {
	depth := 2
	if tier() == "thorough" {
		depth = 4
	}
	if d := envInt("VERIF_C10_DEPTH", 0); d > 0 {
		depth = d
	}
	c10Enumerate(t, "enum", depth, 1)
}

// TestC10Sample: quick only: every 6th program of the depth-3 enumeration.
func TestC10Sample(t *testing.T) {
	c10Enumerate(t, "enum3sample", 3, envInt("VERIF_C10_STRIDE", 6))
}

func c10Enumerate(t *testing.T, part string, depth int, stride int) {
	seedNote(t)
	StartWatchdog("C10", 120*time.Second)
	nshards := envInt("VERIF_NSHARDS", 1)
	shardIdx := envInt("VERIF_SHARD_INDEX", 0)
	kind := "bounded exhaustive: every program"
	if stride > 1 {
		kind = fmt.Sprintf("every %dth program of the enumeration of all programs", stride)
	}
	st := NewStats("C10", part, fmt.Sprintf(kind+" `find all P` (and, up to depth 2, `P 'b'` three subroutine-in-loop forms, 35 programs of two commands using one definition, and 396 guarded-recursion programs: 22 consuming first instructions incl. every class and its negation and whole line / word / file x 6 continuations x 3 contexts) with P from the nullable-material grammar (18 atoms incl. all anchors and their negations and a `not in` with a multi-byte item, 13 loop heads greedy/fewest/named incl. two with bounds of 2e9 and 2^63-1, or-pairs) to nesting depth %d x all %d texts of length 1..3 over {a,b,\\n}; oracle: VM instructions per Run <= %d (largest observed count reported); non-trivial = program contains a loop whose body is nullable; programs are distinct by construction", depth, len(c10Texts()), c10EnumBudget))
	st.Exhaustive = stride == 1
	defer st.Write()
	texts := c10Texts()
	bodies := c10Level(depth)
	shallow := len(c10Level(min(depth, 2)))
	idx := 0
	runProgram := func(body []*Node, nullableLoop bool) {
		idx++
		if idx%stride != 0 || (idx/stride)%nshards != shardIdx {
			return
		}
		src := FindAll(body...).Source()
		if nullableLoop {
			st.NonTrivial(src, func() any { return map[string]any{"src": src, "texts": len(texts)} })
		}
		v, err, p := CompileSafe(src)
		if p != nil {
			c := RunCase{Src: src, Text: "a"}
			Fail(t, Failure{Property: "C10", Kind: "terminates", What: src + ": Compile panicked: " + p.Sig(), Case: c, Sig: p.Sig()})
		}
		if err != nil {
			t.Fatalf("HARNESS: %s: %s", src, firstLine(err.Error()))
		}
		for _, text := range texts {
			c := RunCase{Src: src, Text: text}
			SetInflight(func() string { return jsonStr(Failure{Property: "C10", Kind: "terminates", Case: c}) })
			res := RunSafe(v, text, c10EnumBudget)
			ClearInflight()
			st.Eval()
			st.Max("max_vm_steps", res.Steps)
			st.Max("max_loop_iterations", res.MaxIter)
			st.Max("max_call_depth", res.MaxDepth)
			if spin := spinning(res, text); spin != "" {
				Fail(t, Failure{Property: "C10", Kind: "terminates", What: fmt.Sprintf("%s on %q: %s", src, text, spin), Case: c, Sig: "spin"})
			}
			if res.OverBudget {
				Fail(t, Failure{Property: "C10", Kind: "terminates", What: fmt.Sprintf("%s on %q: Run executed more than %d VM instructions", src, text, c10EnumBudget), Case: c, Sig: "step-budget-exceeded"})
			}
			if res.Panic != nil {
				Fail(t, Failure{Property: "C10", Kind: "terminates", What: fmt.Sprintf("%s on %q: Run panicked: %s", src, text, res.Panic.Sig()), Case: c, Sig: res.Panic.Sig()})
			}
		}
	}
	// guarded recursion: the subroutine consumes (one of four consuming atoms) before it recurses
	for _, x := range c10ConsumingAtoms() {
		call := &Node{K: KCall, S: "s"}
		for _, rest := range []*Node{
			{K: KLoop, Min: 0, Max: 1, Body: call},
			{K: KLoop, Min: 0, Max: 1, Fewest: true, Body: call},
			call,
			{K: KOr, Kids: []*Node{call, {K: KLit, S: "b"}}},
			{K: KOr, Kids: []*Node{{K: KLit, S: "b"}, call}},
			{K: KLoop, Min: 0, Max: -1, Body: call},
		} {
			sub := &Node{K: KSub, S: "s", Kids: []*Node{x, rest}}
			runProgram([]*Node{sub}, true)
			runProgram([]*Node{sub, {K: KLit, S: "b"}}, true)
			runProgram([]*Node{{K: KLoop, Min: 0, Max: -1, Body: &Node{K: KSeq, Kids: []*Node{sub}}}}, true)
		}
	}
	// several commands that use the same definition (each command expands it again)
	runSource := func(src string) {
		idx++
		if idx%stride != 0 || (idx/stride)%nshards != shardIdx {
			return
		}
		st.NonTrivial(src, func() any { return map[string]any{"src": src, "texts": len(texts)} })
		v, err, p := CompileSafe(src)
		if p != nil {
			Fail(t, Failure{Property: "C10", Kind: "terminates", What: src + ": Compile panicked: " + p.Sig(), Case: RunCase{Src: src, Text: "a"}, Sig: p.Sig()})
		}
		if err != nil {
			t.Fatalf("HARNESS: %s: %s", src, firstLine(err.Error()))
		}
		for _, text := range texts {
			c := RunCase{Src: src, Text: text}
			SetInflight(func() string { return jsonStr(Failure{Property: "C10", Kind: "terminates", Case: c}) })
			res := RunSafe(v, text, c10EnumBudget)
			ClearInflight()
			st.Eval()
			if spin := spinning(res, text); spin != "" {
				Fail(t, Failure{Property: "C10", Kind: "terminates", What: fmt.Sprintf("%s on %q: %s", src, text, spin), Case: c, Sig: "spin"})
			}
			if res.OverBudget {
				Fail(t, Failure{Property: "C10", Kind: "terminates", What: fmt.Sprintf("%s on %q: Run executed more than %d VM instructions", src, text, c10EnumBudget), Case: c, Sig: "step-budget-exceeded"})
			}
			if res.Panic != nil {
				Fail(t, Failure{Property: "C10", Kind: "terminates", What: fmt.Sprintf("%s on %q: Run panicked: %s", src, text, res.Panic.Sig()), Case: c, Sig: res.Panic.Sig()})
			}
		}
	}
	for _, def := range []string{"at least 1 'a'", "at least 0 ( maybe 'a' )", "'a' or line start", "maybe 'a' maybe 'b'", "at least 0 ( 'a' or word end ) fewest"} {
		for _, cmds := range []string{
			"find all d find all d", "find all d replace all d with 'N'", "replace all d with 'N' find all d", "find all d find all maybe 'b' d",
			"find all d 'b' find all 'b' d d", "set e to pattern d 'b' find all e find all d e", "find all at least 0 d find all at least 0 ( d ) fewest 'b'",
		} {
			runSource("set d to pattern " + def + " " + cmds)
		}
	}
	for i, b := range bodies {
		nl := hasNullableLoop(b)
		runProgram([]*Node{b}, nl)
		if i < shallow {
			runProgram([]*Node{b, {K: KLit, S: "b"}}, nl)
			{
				// subroutine with this body, called inside loops; the definition is
				// itself under a min-0 loop in the second form
				sub := &Node{K: KSub, S: "s", Kids: []*Node{b}}
				call := &Node{K: KCall, S: "s"}
				runProgram([]*Node{sub, {K: KLoop, Min: 0, Max: -1, Body: call}}, true)
				runProgram([]*Node{{K: KLoop, Min: 0, Max: -1, Body: &Node{K: KSeq, Kids: []*Node{sub}}}, call}, true)
				runProgram([]*Node{sub, {K: KLoop, Min: 1, Max: -1, Fewest: true, Body: &Node{K: KOr, Kids: []*Node{call, {K: KLit, S: "b"}}}}}, true)
			}
		}
	}
	st.Add("programs_total", int64(idx))
}

// c10ConsumingAtoms: every kind of instruction that must consume at least one byte
// or fail - also at the end of the input, where a negated test has nothing to look
// at. A subroutine that starts with one of them "consumes before it recurses".
func c10ConsumingAtoms() []*Node {
	atoms := []*Node{
		{K: KLit, S: "a"},
		{K: KLit, S: "a", Not: true},
		{K: KLit, S: "A", Caseless: true},
		{K: KClass, Class: "any"},
		{K: KIn, Not: true, Items: []Item{{Kind: 0, S: "ab"}, {Kind: 0, S: "b"}}},
		{K: KIn, Items: []Item{{Kind: 0, S: "a"}, {Kind: 0, S: "ab"}}},
		{K: KIn, Items: []Item{{Kind: 1, From: "a", To: "b"}}},
		{K: KIn, Not: true, Items: []Item{{Kind: 1, From: "b", To: "c"}}},
		{K: KIn, Not: true, Items: []Item{{Kind: 2, Class: "whitespace"}, {Kind: 0, S: "b"}}},
	}
	for _, c := range []string{"whitespace", "digit", "letter", "upper", "lower"} {
		atoms = append(atoms, &Node{K: KClass, Class: c}, &Node{K: KClass, Class: c, Not: true})
	}
	// whole line / word / file take at least their first byte (also of an empty line)
	for _, w := range wholeNames {
		atoms = append(atoms, &Node{K: KWhole, Class: w})
	}
	return atoms
}

func containsNamed(n *Node) bool {
	if n == nil {
		return false
	}
	if n.K == KLoop && n.Name != "" {
		return true
	}
	for _, k := range n.Kids {
		if containsNamed(k) {
			return true
		}
	}
	return containsNamed(n.Body)
}

// part B: random deeper programs from the same material, with sequences.
func genNullableNode(t *rapid.T, depth int, id *int) *Node {
	atoms := c10Atoms()
	if depth <= 0 {
		return atoms[rapid.IntRange(0, len(atoms)-1).Draw(t, "atom")]
	}
	switch rapid.IntRange(0, 5).Draw(t, "shape") {
	case 0:
		return atoms[rapid.IntRange(0, len(atoms)-1).Draw(t, "atom")]
	case 1:
		n := &Node{K: KSeq}
		for i := rapid.IntRange(0, 3).Draw(t, "seqn"); i > 0; i-- {
			n.Kids = append(n.Kids, genNullableNode(t, depth-1, id))
		}
		return n
	case 2:
		n := &Node{K: KOr}
		for i := rapid.IntRange(2, 3).Draw(t, "orn"); i > 0; i-- {
			n.Kids = append(n.Kids, genNullableNode(t, depth-1, id))
		}
		return n
	default:
		heads := c10Heads()
		h := heads[rapid.IntRange(0, len(heads)-1).Draw(t, "head")]
		*id++
		return applyHead(h, genNullableNode(t, depth-1, id), *id)
	}
}

func TestC10Random(t *testing.T) {
	seedNote(t)
	StartWatchdog("C10", 120*time.Second)
	st := NewStats("C10", "random", "random programs of nesting depth <= 5 from the same nullable material with sequences and alternations, optionally through a subroutine called in a loop, on texts of length <= 8 over {a,b,\\n}; same step-count oracle; non-trivial = contains a loop with a nullable body; distinct by (source,text)")
	defer st.Write()
	rapid.Check(t, func(t *rapid.T) {
		id := 0
		depth := rapid.IntRange(2, 5).Draw(t, "depth")
		var body []*Node
		for i := rapid.IntRange(1, 2).Draw(t, "bodyn"); i > 0; i-- {
			body = append(body, genNullableNode(t, depth, &id))
		}
		nl := false
		for _, b := range body {
			nl = nl || hasNullableLoop(b)
		}
		if rapid.IntRange(0, 3).Draw(t, "viasub") == 0 && !containsNamed(&Node{K: KSeq, Kids: body}) {
			sub := &Node{K: KSub, S: "s", Kids: body}
			body = []*Node{sub, {K: KLoop, Min: 0, Max: -1, Fewest: rapid.Bool().Draw(t, "subfew"), Body: &Node{K: KCall, S: "s"}}}
			nl = true
		}
		text := ""
		for i := rapid.IntRange(1, 8).Draw(t, "tlen"); i > 0; i-- {
			text += rapid.SampledFrom([]string{"a", "a", "b", "\n"}).Draw(t, "tc")
		}
		src := FindAll(body...).Source()
		c := RunCase{Src: src, Text: text}
		st.Eval()
		// random deep nesting can be legitimately exponential: only a *spin* is a
		// violation, so searches that are long in the reference matcher are discarded
		// up front (bounds the cost of a case, never the verdict)
		mr := ModelFindAll(nil, stripNames(body), text, 20_000)
		if mr.OverBudget {
			st.Count("discarded_exponential")
			return
		}
		SetInflight(func() string { return jsonStr(Failure{Property: "C10", Kind: "terminates", Case: c}) })
		sig, what, steps := checkTerminates(c)
		ClearInflight()
		if sig == "compile-error" {
			t.Fatalf("HARNESS: %s: %s", src, what)
		}
		if sig == "step-budget-exceeded" {
			// more than c10Budget instructions with bounded progress measures: nested unbounded
			// loops are legitimately exponential (found: 5.2e6 instructions on 6 bytes, a
			// VIOLATION line on the unchanged tree, harness error 17). Not a verdict.
			st.Count("discarded_long_search_with_bounded_progress")
			return
		}
		if sig != "" {
			Fail(t, Failure{Property: "C10", Kind: "terminates", What: fmt.Sprintf("%s on %q: %s", src, text, what), Case: c, Sig: sig})
		}
		st.Max("max_vm_steps", steps)
		if nl {
			st.NonTrivial(src+"\x00"+text, func() any { return map[string]any{"src": src, "text": text, "vm_steps": steps} })
		}
	})
}

// stripNames returns the body with loop names removed (the reference matcher has
// no named loops; names do not influence matching).
func stripNames(body []*Node) []*Node {
	var cp func(n *Node) *Node
	cp = func(n *Node) *Node {
		if n == nil {
			return nil
		}
		c := *n
		c.Name = ""
		c.Kids = nil
		for _, k := range n.Kids {
			c.Kids = append(c.Kids, cp(k))
		}
		c.Body = cp(n.Body)
		return &c
	}
	out := []*Node{}
	for _, n := range body {
		out = append(out, cp(n))
	}
	return out
}

// TestC10Process: "whose process code has no unbounded loop": predicates and
// transforms with bounded counter loops (several rounds, `continue` after the
// increment, `break`) - Run must return. Process statements are not VM
// instructions, so a spin there is seen by the watchdog (15 s; cases take
// milliseconds), replayed in isolation by the driver, and reported as the
// violation it is for this property.
func TestC10Process(t *testing.T) {
	seedNote(t)
	StartWatchdog("C10", 15*time.Second)
	st := NewStats("C10", "process", "generated predicates and transforms whose statement lists contain a bounded counter loop (1..5 rounds, optional `continue` after the increment under a counter or generated condition, optional `break`, work after the continue) x 3 texts; oracle: Run returns (no step or time budget is spent by correct code: process statements are bounded by construction) and does not panic; non-trivial = the loop has a `continue`; distinct by source")
	defer st.Write()
	rapid.Check(t, func(t *rapid.T) {
		ctx := CtxTransform
		if rapid.Bool().Draw(t, "predicate") {
			ctx = CtxPredicate
		}
		eg := &exprGen{t: t, vars: map[PType][]string{TString: {"match"}, TNumber: {"matchLength"}}}
		stmts := declareVars(eg)
		sg := &stmtGen{eg: eg, t: t, ctx: ctx, loopFuel: 1}
		stmts = append(stmts, sg.WellTyped(rapid.IntRange(0, 1).Draw(t, "pre"), 1, false)...)
		stmts = append(stmts, sg.counterLoop(2)...)
		stmts = append(stmts, returnFor(eg, ctx, 1))
		body := strings.Join(StmtsTokens(stmts, true), " ")
		var src string
		if ctx == CtxPredicate {
			src = "set p to pattern at least 1 letter begin " + body + " end find all p"
		} else {
			src = "set f to transform " + body + " end replace all at least 1 letter with f"
		}
		hasContinue := strings.Contains(body, " continue ")
		v, err, p := CompileSafe(src)
		if p != nil {
			c := RunCase{Src: src, Text: "a"}
			Fail(t, Failure{Property: "C10", Kind: "terminates", What: src + ": Compile panicked: " + p.Sig(), Case: c, Sig: p.Sig()})
		}
		if err != nil {
			t.Fatalf("HARNESS: %s: %s", src, firstLine(err.Error()))
		}
		for _, text := range []string{"ab c", "abc 12 de", "x"} {
			c := RunCase{Src: src, Text: text}
			st.Eval()
			SetInflight(func() string { return jsonStr(Failure{Property: "C10", Kind: "terminates", Case: c}) })
			res := RunSafe(v, text, c10Budget)
			ClearInflight()
			if res.OverBudget {
				Fail(t, Failure{Property: "C10", Kind: "terminates", What: fmt.Sprintf("%s on %q: Run executed more than %d VM instructions", src, text, c10Budget), Case: c, Sig: "step-budget-exceeded"})
			}
			if res.Panic != nil && !strings.Contains(res.Panic.Sig(), "divide by zero") {
				Fail(t, Failure{Property: "C10", Kind: "terminates", What: fmt.Sprintf("%s on %q: Run panicked: %s", src, text, res.Panic.Sig()), Case: c, Sig: res.Panic.Sig()})
			}
		}
		if hasContinue {
			st.NonTrivial(src, func() any { return map[string]any{"src": src} })
		}
	})
}

// TestC10Files: the same claim when the input is a file (RunFiles): linear programs
// whose instructions read several bytes at once, on files larger than the read
// buffer, with the buffer ends falling on every phase of the repeated text. A read
// loop that stops making progress is not a VM spin (no instruction is executed): the
// watchdog sees the case in flight and the driver replays it alone.
func TestC10Files(t *testing.T) {
	seedNote(t)
	StartWatchdog("C10", 60*time.Second)
	st := NewStats("C10", "files", "exhaustive over 12 linear-time programs with multi-byte reads (literals, alternations, line / word anchors, multi-byte not-in, back-references, a bounded nullable loop, replace) x 8 files of 4097..12288 bytes read through RunFiles (mode NOTHING); oracle: the run returns within 5 000 000 VM instructions and the progress measures, and a call that never returns is a violation (watchdog + isolated replay); every case non-trivial; distinct by (program, file)")
	st.Exhaustive = true
	defer st.Write()
	progs := []string{
		`find all "ab"`, `find all 'abc' or 'bca' or 'cab'`, `find all line end`, `find all word end any`, `find all not in "ab", "b"`,
		`find all at most 3 (maybe "ab") "c"`, `find all whole line`, `find all line start at least 1 "ab"`, `find all ('a' = v) 'b' v`,
		`replace all "ab" with 'x'`, `find all (between 2 and 4 letter) = w ' ' w`, `find top 3 "bc" file end`,
	}
	texts := map[string]string{
		"abc_4097": strings.Repeat("abc", 1400)[:4097], "abc_9000": strings.Repeat("abc", 3000), "ab_nl_8193": strings.Repeat("ab ab\n", 1400)[:8193],
		"aba_6145": strings.Repeat("aba ", 1600)[:6145], "words_12288": strings.Repeat("the the cat ", 1024), "ab_4098": strings.Repeat("ab", 2049),
		"crlf_5000": strings.Repeat("ab\r\n", 1250), "bc_end_4100": strings.Repeat("a", 4098) + "bc",
	}
	var names []string
	for n := range texts {
		names = append(names, n)
	}
	sort.Strings(names)
	for _, src := range progs {
		for _, n := range names {
			c := RunCase{Src: src, Text: texts[n], File: true, Limit: 5_000_000}
			st.Eval()
			SetInflight(func() string { return jsonStr(Failure{Property: "C10", Kind: "terminates", Case: c}) })
			sig, what, steps := checkTerminates(c)
			ClearInflight()
			if sig == "compile-error" {
				t.Fatalf("HARNESS: %s: %s", src, what)
			}
			if sig != "" {
				Fail(t, Failure{Property: "C10", Kind: "terminates", What: fmt.Sprintf("%s on the file %s: %s", src, n, what), Case: c, Sig: sig})
			}
			if steps < 0 {
				st.Count("discarded_watchdog_abort")
				continue
			}
			st.Max("max_steps", steps)
			st.NonTrivial(src+"\x00"+n, func() any { return map[string]any{"src": src, "file": n, "bytes": len(texts[n]), "steps": steps} })
		}
	}
}

// TestC10Data: classes of input bytes the enumeration's alphabet {a, b, \n} does not
// have: CR-only and mixed line ends, NUL, a byte order mark, multi-byte UTF-8, bytes
// that are not UTF-8 (also cut off at the very end of the input), one long line.
func TestC10Data(t *testing.T) {
	seedNote(t)
	StartWatchdog("C10", 60*time.Second)
	st := NewStats("C10", "data", "exhaustive over 20 programs (whole line / word / file, line and word anchors, literals, caseless and multi-byte literals, not-in, nullable loops, a guarded recursion, replace) x 24 texts (CR-only, mixed and doubled line ends, CR first / last, NUL, BOM, accented / CJK / 4-byte UTF-8, Latin-1 bytes, sequences cut off at the end of input, a 120-byte line with and without a line end); oracle: as in the enumeration (instruction budget, progress measures), and a call that never returns is a violation; every case non-trivial; distinct by (program, text)")
	st.Exhaustive = true
	defer st.Write()
	progs := []string{
		`find all whole line`, `find all whole word`, `find all whole file`, `find all line end`, `find all line start`, `find all word end any`,
		`find all "fe"`, `find all 'é'`, `find all caseless 'É'`, `find all not in "é", "a"`, `find all not "\r\n"`, `find all at least 0 any "x"`,
		`find all at least 0 (maybe whitespace) line end`, `find all at least 1 (line start or line end or 'a')`, `find all {'a' maybe r} = r`,
		`find all at least 1 letter`, `find all (any = v) v`, `replace all whole line with 'L'`, `find all at least 0 not line end line end`, `find last 2 whitespace`,
	}
	long := strings.Repeat("ab ", 40)
	texts := []string{
		"a\rb", "ab\rcd\nef", "a\r", "\ra", "a\r\r\nb", "\r", "\r\r", "a\n\rb\r\n", "\x00a\x00", "a\x00\n\x00", "\ufeffab\n", "é", "café fée", "日本", "\U0001f600 a",
		"caf\xe9", "caf\xe9\n", "f\xe9e", "caf\xc3", "\xf0\x9f", "a\xe2\x82", "\xff\xfe", long, long + "\r",
	}
	for _, src := range progs {
		for ti, text := range texts {
			c := RunCase{Src: src, Text: text, Limit: 3_000_000}
			st.Eval()
			SetInflight(func() string { return jsonStr(Failure{Property: "C10", Kind: "terminates", Case: c}) })
			sig, what, steps := checkTerminates(c)
			ClearInflight()
			if sig == "compile-error" {
				t.Fatalf("HARNESS: %s: %s", src, what)
			}
			if sig != "" {
				Fail(t, Failure{Property: "C10", Kind: "terminates", What: fmt.Sprintf("%s on %q: %s", src, clipMsg(text, 40), what), Case: c, Sig: sig})
			}
			st.Max("max_steps", steps)
			st.NonTrivial(fmt.Sprint(src, "\x00", ti), func() any { return map[string]any{"src": src, "text": clipMsg(text, 40), "steps": steps} })
		}
	}
}
