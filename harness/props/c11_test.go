package props

import (
	"encoding/json"
	"fmt"
	"strings"
	"testing"
	"time"

	"github.com/jmeaster30/vore/libvore/bytecode"
	"pgregory.net/rapid"
)

// ExprCase: an expression observed through a transform or a predicate.
type ExprCase struct {
	Pre  []Stmt `json:"pre,omitempty"` // unconditional `set` statements executed first
	E    *Expr  `json:"e"`
	Text string `json:"text"` // the match text (`match` = Text, `matchLength` = len)
	Full bool   `json:"full"` // parenthesisation style
	Form string `json:"form"` // "transform" | "predicate"
}

func isGenError(err error) bool {
	_, ok := err.(*bytecode.GenError)
	return ok
}

func (c ExprCase) typeEnv() TypeEnv {
	env := TypeEnv{"match": TString, "matchLength": TNumber}
	for _, s := range c.Pre {
		t, _ := TypeOf(s.E, env)
		env[s.Name] = t
	}
	return env
}

func (c ExprCase) source(t PType) string {
	pre := strings.Join(StmtsTokens(c.Pre, c.Full), " ")
	e := exprString(c.E, c.Full)
	if c.Form == "predicate" {
		return fmt.Sprintf("set p to pattern %s begin %s return %s end find all p", Quote(c.Text), pre, e)
	}
	if t == TBool {
		return fmt.Sprintf("set f to transform %s if %s then return 'T' else return 'F' end end replace all at least 1 any with f '|' f", pre, e)
	}
	return fmt.Sprintf("set f to transform %s return %s end replace all at least 1 any with f '|' f", pre, e)
}

// checkExprCase returns status: "ok", "discard-undefined", "rejected", or a violation signature.
func checkExprCase(c ExprCase) (sig, what, status string) {
	tenv := c.typeEnv()
	t, open := TypeOf(c.E, tenv)
	if t == TError || open {
		return "", "", "discard-illtyped"
	}
	env := map[string]Value{"match": VS(c.Text), "matchLength": VN(len(c.Text))}
	var want Value
	undefined := false
	func() {
		defer func() {
			if r := recover(); r != nil {
				if _, ok := r.(ErrUndefined); ok {
					undefined = true
					return
				}
				panic(r)
			}
		}()
		for _, s := range c.Pre {
			env[s.Name] = Eval(s.E, env)
		}
		want = Eval(c.E, env)
	}()
	if undefined {
		return "", "", "discard-undefined"
	}
	src := c.source(t)
	v, err, p := CompileSafe(src)
	if p != nil {
		return p.Sig(), "Compile panicked on " + src + ": " + p.Sig(), ""
	}
	if err != nil {
		if isGenError(err) {
			return "", src + ": " + firstLine(err.Error()), "rejected"
		}
		return "harness-parse-error", src + ": " + firstLine(err.Error()), ""
	}
	res := RunSafe(v, c.Text, 100_000)
	if res.Panic != nil {
		return res.Panic.Sig(), fmt.Sprintf("%s on %q: Run panicked: %s", src, c.Text, res.Panic.Sig()), ""
	}
	if res.OverBudget {
		return "", "", "discard-budget"
	}
	if c.Form == "predicate" {
		wantN := 0
		if want.AsBool() {
			wantN = 1
		}
		if len(res.Matches) != wantN {
			return "expr-mismatch", fmt.Sprintf("%s on %q: predicate gave %d matches, documented value of the expression is %s", src, c.Text, len(res.Matches), want), ""
		}
		return "", "", "ok"
	}
	if len(res.Matches) != 1 {
		return "expr-mismatch", fmt.Sprintf("%s on %q: expected exactly one match, got %d", src, c.Text, len(res.Matches)), ""
	}
	got := res.Matches[0].Replacement.GetValueOrDefault("")
	exp := want.AsString()
	if t == TBool {
		exp = "F"
		if want.AsBool() {
			exp = "T"
		}
	}
	// the transform is called twice for the match: every call starts from the match
	// alone (what an earlier call assigned is gone)
	if got != exp+"|"+exp {
		return "expr-mismatch", fmt.Sprintf("%s on %q: replacement %q, documented value is %s (expected %q)", src, c.Text, got, want, exp+"|"+exp), ""
	}
	return "", "", "ok"
}

func init() {
	registerReplay("expr", func(raw json.RawMessage) (string, string) {
		var c ExprCase
		if err := json.Unmarshal(raw, &c); err != nil {
			return "bad-replay-file", err.Error()
		}
		sig, what, _ := checkExprCase(c)
		return sig, what
	})
}

func boundaryOperands() []*Expr {
	out := []*Expr{}
	for _, s := range []string{"", "a", "ab", "0", "12", "-5", "abc", "2147483648", "\u00e9t"} {
		out = append(out, Str(s))
	}
	for _, n := range []int{0, 1, 2, 7, -3} {
		out = append(out, Num(n))
	}
	return append(out, Bool(true), Bool(false))
}

func TestC11Table(t *testing.T) {
	seedNote(t)
	StartWatchdog("C11", 60*time.Second)
	st := NewStats("C11", "table", "exhaustive: every binary operator x every pair of boundary operands ('' 'a' 'ab' '0' '12' '-5' 'abc' '2147483648' 'ét' 0 1 2 7 -3 true false) accepted by the documented table, every unary operator x operand; string/number results observed as the replacement of a transform, boolean results through if/else in a transform and as the predicate of a pattern; zero divisors excluded (K1); every case counts as non-trivial, distinct by rendered expression and form")
	st.Exhaustive = true
	defer st.Write()
	ops := boundaryOperands()
	var exprs []*Expr
	for _, op := range binaryOps {
		for _, l := range ops {
			for _, r := range ops {
				exprs = append(exprs, Bin(op, l, r))
			}
		}
	}
	for _, op := range unaryOps {
		for _, o := range ops {
			exprs = append(exprs, Un(op, o))
		}
	}
	for _, e := range exprs {
		tp, open := TypeOf(e, TypeEnv{})
		if tp == TError || open {
			st.Count("not_in_table")
			continue
		}
		forms := []string{"transform"}
		if tp == TBool {
			forms = append(forms, "predicate")
		}
		for _, form := range forms {
			c := ExprCase{E: e, Text: "a", Full: true, Form: form}
			st.Eval()
			sig, what, status := checkExprCase(c)
			switch {
			case sig != "":
				Fail(t, Failure{Property: "C11", Kind: "expr", What: what, Case: c, Sig: sig})
			case status == "discard-undefined":
				st.Count("excluded_zero_divisor")
			case status == "rejected":
				st.Count("rejected_by_checker")
			case status == "ok":
				st.Count("compared")
				st.NonTrivial(exprString(e, true)+"|"+form, func() any { return map[string]any{"expr": exprString(e, true), "form": form} })
			}
		}
	}
}

func TestC11Trees(t *testing.T) {
	seedNote(t)
	StartWatchdog("C11", 60*time.Second)
	st := NewStats("C11", "trees", "type-directed expression trees of depth <= 4 over boundary literals, match, matchLength, set-bound variables and a never-assigned name (a string, evaluating to ''), each rendered with full and with minimal parentheses (only parentheses made redundant by the stated precedence/associativity rules are dropped) and observed through a transform and, for booleans, a predicate; non-trivial = depth >= 2 with a coercion or two operators of different precedence adjacent without parentheses; distinct by rendered text, match text and form")
	defer st.Write()
	rapid.Check(t, func(t *rapid.T) {
		eg := &exprGen{t: t, vars: map[PType][]string{TString: {"match"}, TNumber: {"matchLength"}}}
		var pre []Stmt
		if rapid.Bool().Draw(t, "withvars") {
			pre = declareVars(eg)
		}
		if rapid.IntRange(0, 3).Draw(t, "readbeforewrite") == 0 {
			// a name read before it is written: '' at the start of every call
			pre = append(pre, Stmt{K: "set", Name: "acc", E: Bin("+", Var("acc", TString), Str("k"))})
			eg.vars[TString] = append(eg.vars[TString], "acc")
		}
		if rapid.IntRange(0, 3).Draw(t, "withunbound") == 0 {
			// a name that is never assigned: the checker types it as a string and it
			// evaluates to '' whatever was evaluated before it
			eg.vars[TString] = append(eg.vars[TString], "u9")
		}
		want := eg.anyType()
		depth := rapid.IntRange(1, 4).Draw(t, "depth")
		e := eg.Typed(want, depth)
		text := rapid.SampledFrom([]string{"a", "12", "0", "-5", "abc", "7", "ab", "4294967296", "\u00e9t\u00e9", "\u65e5x"}).Draw(t, "text")
		forms := []string{"transform"}
		if want == TBool {
			forms = append(forms, "predicate")
		}
		st.Add("zero_divisors_avoided", int64(eg.zeroDivs))
		for _, form := range forms {
			for _, full := range []bool{true, false} {
				c := ExprCase{Pre: pre, E: e, Text: text, Full: full, Form: form}
				st.Eval()
				SetInflight(func() string { return jsonStr(Failure{Property: "C11", Kind: "expr", Case: c}) })
				sig, what, status := checkExprCase(c)
				ClearInflight()
				if sig == "harness-parse-error" {
					t.Fatalf("HARNESS: %s", what)
				}
				if sig != "" {
					Fail(t, Failure{Property: "C11", Kind: "expr", What: what, Case: c, Sig: sig})
				}
				st.Count("status_" + status)
				if status == "ok" && exprUsesVar(e, "u9") {
					st.Count("uses_never_assigned_name")
				}
				if status != "ok" {
					continue
				}
				if exprDepth(e) >= 2 && (hasCoercion(e, c.typeEnv()) || (!full && hasAdjacentPrecedence(e))) {
					key := exprString(e, full) + "|" + text + "|" + form
					st.NonTrivial(key, func() any {
						return map[string]any{"expr": exprString(e, full), "match": text, "form": form, "type": want.String()}
					})
				}
			}
		}
	})
}

func exprUsesVar(e *Expr, name string) bool {
	if e == nil {
		return false
	}
	if e.K == "var" && e.S == name {
		return true
	}
	return exprUsesVar(e.L, name) || exprUsesVar(e.R, name)
}
