package props

import (
	"encoding/json"
	"fmt"
	"strings"
	"testing"
	"time"

	"pgregory.net/rapid"
)

// TypeCase: a statement list in predicate or transform context; the verdict of
// Compile is compared with the documented typing rules, and accepted code is run.
type TypeCase struct {
	Stmts []Stmt `json:"stmts"`
	Ctx   Ctx    `json:"ctx"`
	Full  bool   `json:"full"`
	// Other (optional): a well-typed transform defined earlier in the same source. Every
	// body is checked in its own environment: what Other assigns must not be known here.
	Other []Stmt `json:"other,omitempty"`
}

func (c TypeCase) source() string {
	body := strings.Join(StmtsTokens(c.Stmts, c.Full), " ")
	if len(c.Other) > 0 {
		return "set f0 to transform " + strings.Join(StmtsTokens(c.Other, c.Full), " ") + " end " + c.mainSource(body)
	}
	return c.mainSource(body)
}

func (c TypeCase) mainSource(body string) string {
	if c.Ctx == CtxPredicate {
		return "set p to pattern at least 1 any begin " + body + " end find all p"
	}
	if len(c.Other) > 0 {
		// both transforms are called for every match, the earlier definition first: what
		// it assigns must not be visible to the second call either
		return "set f to transform " + body + " end replace all at least 1 any with f0 '|' f"
	}
	return "set f to transform " + body + " end replace all at least 1 any with f"
}

var c12Texts = []string{"a", "12", "\xe9", "\u00e9t", "a\xc3"}

// checkTypeCase: status is "accept", "reject", "open" (documents leave the verdict
// open: only the run-time half is asserted), or "" with a violation signature.
func checkTypeCase(c TypeCase) (sig, what, status string, ran bool) {
	env := TypeEnv{"match": TString, "matchLength": TNumber}
	ok, open := CheckStmts(c.Stmts, c.Ctx, env, false)
	src := c.source()
	v, err, p := CompileSafe(src)
	if p != nil {
		return p.Sig(), "Compile panicked on " + src + ": " + p.Sig(), "", false
	}
	if err != nil && !isGenError(err) {
		return "harness-parse-error", src + ": " + firstLine(err.Error()), "", false
	}
	accepted := err == nil
	// the same program behind a block comment of more than one read buffer, read from a
	// file (CompileFile, the CLI's -src): same verdict
	padded := longSep("blockcomment", 4200) + " " + src
	_, ferr, fp := CompileFileSafe(padded)
	if fp != nil {
		return fp.Sig(), "CompileFile panicked on a 4200-byte comment followed by " + src + ": " + fp.Sig(), "", false
	}
	if (ferr == nil) != accepted || (ferr != nil && !isGenError(ferr)) {
		return "file-verdict-differs", fmt.Sprintf("%s: Compile says %s, CompileFile on a file holding a 4200-byte block comment and the same program says %s", src, errLine(err), errLine(ferr)), "", false
	}
	status = "reject"
	if ok {
		status = "accept"
	}
	if open {
		status = "open"
	} else if accepted != ok {
		if accepted {
			return "accepted-ill-typed", src + ": accepted, but the documented typing rules reject it", "", false
		}
		return "rejected-well-typed", src + ": rejected (" + firstLine(err.Error()) + "), but the documented typing rules accept it", "", false
	}
	if !accepted {
		return "", "", status, false
	}
	// run accepted code when the harness evaluator says it terminates and divides by nothing
	for _, text := range c12Texts {
		runnable := true
		func() {
			defer func() {
				if r := recover(); r != nil {
					switch r.(type) {
					case ErrUndefined, ErrBudget:
						runnable = false
					default:
						panic(r)
					}
				}
			}()
			// a predicate is evaluated for several candidate matches (the scan moves on
			// after a rejected candidate): check every substring
			for i := 0; i < len(text); i++ {
				for j := i + 1; j <= len(text); j++ {
					budget := 2000
					Exec(c.Stmts, map[string]Value{"match": VS(text[i:j]), "matchLength": VN(j - i)}, &budget)
					if len(c.Other) > 0 && c.Ctx != CtxPredicate {
						budget = 2000
						Exec(c.Other, map[string]Value{"match": VS(text[i:j]), "matchLength": VN(j - i)}, &budget)
					}
				}
			}
		}()
		if !runnable {
			continue
		}
		res := RunSafe(v, text, 200_000)
		if res.Panic != nil {
			return res.Panic.Sig(), fmt.Sprintf("%s on %q: accepted code panicked at run time: %s", src, text, res.Panic.Sig()), status, true
		}
		ran = true
	}
	return "", "", status, ran
}

func init() {
	registerReplay("typing", func(raw json.RawMessage) (string, string) {
		var c TypeCase
		if err := json.Unmarshal(raw, &c); err != nil {
			return "bad-replay-file", err.Error()
		}
		sig, what, _, _ := checkTypeCase(c)
		return sig, what
	})
}

func validReturn(ctx Ctx) Stmt {
	if ctx == CtxPredicate {
		return Stmt{K: "return", E: Bool(true)}
	}
	return Stmt{K: "return", E: Str("x")}
}

// bigNumbers: with it set, number literals are written with 20 digits (more than an
// integer holds): still number literals for the typing rules.
var bigNumbers bool

func typedOperand(tp PType, asVar bool) (*Expr, []Stmt) {
	var lit *Expr
	switch tp {
	case TString:
		lit = Str("a")
	case TNumber:
		lit = Num(1)
		if bigNumbers {
			lit = &Expr{K: "numraw", S: "99999999999999999999"}
		}
	default:
		lit = Bool(true)
	}
	if !asVar {
		return lit, nil
	}
	name := typedVarName(tp, 1)
	return Var(name, tp), []Stmt{{K: "set", Name: name, E: lit}}
}

func TestC12Table(t *testing.T) {
	seedNote(t)
	StartWatchdog("C12", 60*time.Second)
	st := NewStats("C12", "table", "exhaustive: 13 binary operators x 3 x 3 operand types and 3 unary operators x 3 types (operands as literals, as set-bound variables, and with 20-digit number literals), each as `return`, `if` condition, `set` source and `debug` argument, in predicate and transform context; break/continue at every position of loop/if skeletons to depth 3; verdict of Compile (GenError or not) vs the documented typing rules, accepted code run on two texts; every case non-trivial (one table cell / one nesting position), distinct by source")
	st.Exhaustive = true
	defer st.Write()
	types := []PType{TString, TNumber, TBool}
	run := func(c TypeCase) {
		st.Eval()
		sig, what, status, ran := checkTypeCase(c)
		if sig == "harness-parse-error" {
			t.Fatalf("HARNESS: %s", what)
		}
		if sig != "" {
			Fail(t, Failure{Property: "C12", Kind: "typing", What: what, Case: c, Sig: sig})
		}
		st.Count("verdict_" + status)
		if ran {
			st.Count("accepted_and_run")
		}
		src := c.source()
		st.NonTrivial(src, func() any { return map[string]any{"src": src, "verdict": status} })
	}
	var exprs []struct {
		e   *Expr
		pre []Stmt
	}
	for mode, asVar := range []bool{false, true, false} {
		bigNumbers = mode == 2
		for _, op := range binaryOps {
			for _, lt := range types {
				for _, rt := range types {
					l, p1 := typedOperand(lt, asVar)
					r, p2 := typedOperand(rt, asVar)
					pre := append(append([]Stmt{}, p1...), p2...)
					if asVar && lt == rt {
						pre = p1
					}
					exprs = append(exprs, struct {
						e   *Expr
						pre []Stmt
					}{Bin(op, l, r), pre})
				}
			}
		}
		for _, op := range unaryOps {
			for _, tp := range types {
				o, pre := typedOperand(tp, asVar)
				exprs = append(exprs, struct {
					e   *Expr
					pre []Stmt
				}{Un(op, o), pre})
			}
		}
	}
	bigNumbers = false
	for _, ctx := range []Ctx{CtxPredicate, CtxTransform} {
		for _, x := range exprs {
			ret := validReturn(ctx)
			forms := [][]Stmt{
				{{K: "return", E: x.e}},
				{{K: "if", E: x.e, Then: []Stmt{ret}}, ret},
				{{K: "set", Name: "v", E: x.e}, ret},
				{{K: "set", Name: "v", E: x.e}, {K: "if", E: Bin("==", Var("v", TString), Str("q")), Then: []Stmt{ret}}, ret},
			}
			if ctx == CtxTransform {
				// `debug` prints: compile-only is enough for the verdict, but accepted code is
				// run as well, so keep it to one context to limit the noise
				forms = append(forms, []Stmt{{K: "debug", E: x.e}, ret})
			}
			for _, f := range forms {
				stmts := append(append([]Stmt{}, x.pre...), f...)
				run(TypeCase{Stmts: stmts, Ctx: ctx, Full: true})
			}
		}
		// break / continue skeletons
		var skeletons func(depth int) [][]Stmt
		skeletons = func(depth int) [][]Stmt {
			out := [][]Stmt{{{K: "break"}}, {{K: "continue"}}}
			if depth == 0 {
				return out
			}
			for _, inner := range skeletons(depth - 1) {
				out = append(out, []Stmt{{K: "loop", Body: append(append([]Stmt{}, inner...), Stmt{K: "break"})}})
				out = append(out, []Stmt{{K: "loop", Body: append([]Stmt{{K: "if", E: Bool(true), Then: []Stmt{{K: "break"}}}}, inner...)}})
				out = append(out, []Stmt{{K: "if", E: Bool(true), Then: inner}})
				out = append(out, []Stmt{{K: "if", E: Bool(false), Then: []Stmt{}, Else: inner}})
				// a statement after a nested loop is still inside the outer loop / outside any loop
				out = append(out, []Stmt{{K: "loop", Body: []Stmt{{K: "break"}}}, inner[0]})
				out = append(out, []Stmt{{K: "loop", Body: append([]Stmt{{K: "loop", Body: []Stmt{{K: "break"}}}}, append(append([]Stmt{}, inner...), Stmt{K: "break"})...)}})
			}
			return out
		}
		for _, sk := range skeletons(3) {
			stmts := append(append([]Stmt{}, sk...), validReturn(ctx))
			run(TypeCase{Stmts: stmts, Ctx: ctx, Full: true})
		}
	}
}

func TestC12Lists(t *testing.T) {
	seedNote(t)
	StartWatchdog("C12", 60*time.Second)
	st := NewStats("C12", "lists", "statement lists of <= 6 statements over untyped random expression trees (ill-typed nodes common) and near-misses (a well-typed program with one operator or operand swapped), every variable assigned unconditionally first and keeping one type; verdict vs documented rules, accepted code run; non-trivial = near-miss (verdict hinges on one node) or a rejected program with exactly one ill-typed node; distinct by source")
	defer st.Write()
	rapid.Check(t, func(t *rapid.T) {
		ctx := Ctx(rapid.IntRange(0, 1).Draw(t, "ctx"))
		eg := &exprGen{t: t, vars: map[PType][]string{TString: {"match"}, TNumber: {"matchLength"}}}
		stmts := declareVars(eg)
		// w1 is never assigned in this body (so it is a string here), but another body of
		// the same source - or an earlier compilation - may assign it a number or a boolean
		sharedName := rapid.IntRange(0, 2).Draw(t, "shared") == 0
		eg.vars[TString] = append(eg.vars[TString], "w1")
		sg := &stmtGen{eg: eg, t: t, ctx: ctx, loopFuel: 2}
		mode := rapid.SampledFrom([]string{"welltyped", "nearmiss", "nearmiss", "untyped"}).Draw(t, "mode")
		depth := rapid.IntRange(1, 3).Draw(t, "depth")
		switch mode {
		case "welltyped", "nearmiss":
			stmts = append(stmts, sg.WellTyped(rapid.IntRange(1, 4).Draw(t, "n"), depth, false)...)
			stmts = append(stmts, returnFor(eg, ctx, depth))
			if mode == "nearmiss" {
				mutateOneNode(t, stmts)
			}
		default:
			n := rapid.IntRange(1, 3).Draw(t, "n")
			for i := 0; i < n; i++ {
				switch rapid.IntRange(0, 3).Draw(t, "ustmt") {
				case 0:
					tp := eg.anyType()
					stmts = append(stmts, Stmt{K: "set", Name: typedVarName(tp, 1), E: eg.Typed(tp, depth)})
				case 1:
					stmts = append(stmts, Stmt{K: "if", E: eg.Untyped(depth), Then: []Stmt{validReturn(ctx)}})
				case 2:
					stmts = append(stmts, Stmt{K: "set", Name: "u1", E: eg.Untyped(depth)})
				default:
					stmts = append(stmts, Stmt{K: rapid.SampledFrom([]string{"break", "continue"}).Draw(t, "bc")})
				}
			}
			stmts = append(stmts, Stmt{K: "return", E: eg.Untyped(depth)})
		}
		full := rapid.Bool().Draw(t, "full")
		c := TypeCase{Stmts: stmts, Ctx: ctx, Full: full}
		if sharedName {
			c.Other = []Stmt{{K: "set", Name: "w1", E: rapid.SampledFrom([]*Expr{Num(3), Bool(true), Num(0)}).Draw(t, "w1val")}, {K: "return", E: Str("x")}}
		}
		st.Eval()
		SetInflight(func() string { return jsonStr(Failure{Property: "C12", Kind: "typing", Case: c}) })
		sig, what, status, ran := checkTypeCase(c)
		ClearInflight()
		if sig == "harness-parse-error" {
			t.Fatalf("HARNESS: %s", what)
		}
		if sig != "" {
			Fail(t, Failure{Property: "C12", Kind: "typing", What: what, Case: c, Sig: sig})
		}
		st.Count("mode_" + mode)
		st.Count("verdict_" + status)
		if sharedName {
			st.Count("second_body_assigns_shared_name")
		}
		if ran {
			st.Count("accepted_and_run")
		}
		if mode == "nearmiss" || (status == "reject" && mode == "untyped") {
			src := c.source()
			st.NonTrivial(src, func() any { return map[string]any{"src": src, "verdict": status, "mode": mode} })
		}
	})
}

// mutateOneNode swaps one operator or one leaf somewhere in the statement list.
func mutateOneNode(t *rapid.T, stmts []Stmt) {
	var nodes []*Expr
	var walkE func(e *Expr)
	walkE = func(e *Expr) {
		if e == nil {
			return
		}
		nodes = append(nodes, e)
		walkE(e.L)
		walkE(e.R)
	}
	var walkS func(ss []Stmt)
	walkS = func(ss []Stmt) {
		for i := range ss {
			walkE(ss[i].E)
			walkS(ss[i].Then)
			walkS(ss[i].Else)
			walkS(ss[i].Body)
		}
	}
	// skip the three declarations
	walkS(stmts[3:])
	if len(nodes) == 0 {
		return
	}
	n := nodes[rapid.IntRange(0, len(nodes)-1).Draw(t, "mutnode")]
	switch n.K {
	case "bin":
		op := rapid.SampledFrom(binaryOps).Draw(t, "mutop")
		if (op == "/" || op == "%") && !(n.R.K == "num" && n.R.N != 0) {
			op = "+"
		}
		n.S = op
	case "un":
		n.S = rapid.SampledFrom(unaryOps).Draw(t, "mutun")
	default:
		tp := PType(rapid.IntRange(0, 2).Draw(t, "muttype"))
		switch tp {
		case TString:
			*n = *Str("q")
		case TNumber:
			*n = *Num(5)
		default:
			*n = *Bool(false)
		}
	}
}
