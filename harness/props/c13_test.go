package props

import (
	"encoding/json"
	"fmt"
	"github.com/jmeaster30/vore/libvore/engine"
	"os"
	"path/filepath"
	"reflect"
	"strings"
	"testing"
	"time"

	"github.com/jmeaster30/vore/libvore"
	"pgregory.net/rapid"
)

// EquivCase: textually different sources that must give identical results.
// Sources[0] is the reference rendering (body written out in place).
type EquivCase struct {
	Sources []string `json:"sources"`
	Labels  []string `json:"labels"`
	Text    string   `json:"text"`
	// Parts (optional): single-command sources whose concatenated results must equal
	// the result of Sources[0] (multi-command independence)
	Parts []string `json:"parts,omitempty"`
}

const vmLimitEquiv = 50_000

// lastRunSteps / lastOverBudget: VM instructions of the most recent runSrc call
var lastRunSteps int64
var lastRunAborted bool // the most recent run was ended by the watchdog, not by the step limit
var maxStepRatioX100 int64

func runSrc(src, text string) (recs []MatchRec, sig, what string, discard bool) {
	v, err, p := CompileSafe(src)
	if p != nil {
		return nil, p.Sig(), "Compile panicked on " + src + ": " + p.Sig(), false
	}
	if err != nil {
		return nil, "compile-error", src + ": " + firstLine(err.Error()), false
	}
	res := RunSafe(v, text, vmLimitEquiv)
	lastRunSteps = res.Steps
	lastRunAborted = res.Aborted
	if res.OverBudget {
		return nil, "", "", true
	}
	if res.Panic != nil {
		return nil, res.Panic.Sig(), fmt.Sprintf("%s on %q: Run panicked: %s", src, text, res.Panic.Sig()), false
	}
	return RecsOf(res.Matches), "", "", false
}

func checkEquivCase(c EquivCase) (sig, what string, discard bool, nmatches int) {
	ref, sig, what, discard := runSrc(c.Sources[0], c.Text)
	if sig != "" || discard {
		return sig, what, discard, 0
	}
	refSteps := lastRunSteps
	for i := 1; i < len(c.Sources); i++ {
		got, sig, what, discard := runSrc(c.Sources[i], c.Text)
		if refSteps > 0 && !discard {
			if r := lastRunSteps * 100 / refSteps; r > maxStepRatioX100 {
				maxStepRatioX100 = r
			}
		}
		if discard {
			// naming a pattern adds a few call instructions per use (largest ratio observed
			// on the unchanged tree: 20x, on programs of a few instructions); a rendering
			// that needs more than 100 times the instructions of the written-out form (and
			// more than the whole budget) is not the same search any more
			if refSteps*100+1000 < vmLimitEquiv && !lastRunAborted {
				return "rendering-diverges", fmt.Sprintf("on %q: [%s] %s finishes in %d VM instructions, but [%s] %s exceeds %d", c.Text, c.Labels[0], c.Sources[0], refSteps, c.Labels[i], c.Sources[i], vmLimitEquiv), false, 0
			}
			return "", "", true, 0
		}
		if sig == "compile-error" {
			return "rendering-rejected", fmt.Sprintf("[%s] %s compiles, but the equivalent [%s] is rejected: %s", c.Labels[0], c.Sources[0], c.Labels[i], what), false, 0
		}
		if sig != "" {
			return sig, what, false, 0
		}
		if !recsEqual(got, ref) {
			return "rendering-mismatch", fmt.Sprintf("on %q: [%s] %s gives %s but [%s] %s gives %s", c.Text, c.Labels[i], c.Sources[i], fmtRecs(got), c.Labels[0], c.Sources[0], fmtRecs(ref)), false, 0
		}
	}
	if len(c.Parts) > 0 {
		var concat []MatchRec
		for _, p := range c.Parts {
			got, sig, what, discard := runSrc(p, c.Text)
			if discard {
				return "", "", true, 0
			}
			if sig == "compile-error" {
				return "rendering-rejected", fmt.Sprintf("%s compiles, but its command taken alone is rejected: %s", c.Sources[0], what), false, 0
			}
			if sig != "" {
				return sig, what, false, 0
			}
			concat = append(concat, got...)
		}
		if !recsEqual(concat, ref) {
			return "command-dependence", fmt.Sprintf("on %q: %s gives %s but its commands taken alone give %s", c.Text, c.Sources[0], fmtRecs(ref), fmtRecs(concat)), false, 0
		}
	}
	return "", "", false, len(ref)
}

func init() {
	registerReplay("equiv", func(raw json.RawMessage) (string, string) {
		var c EquivCase
		if err := json.Unmarshal(raw, &c); err != nil {
			return "bad-replay-file", err.Error()
		}
		sig, what, _, _ := checkEquivCase(c)
		return sig, what
	})
}

// cloneRename deep-copies n, appending suffix to the names of inline subroutines
// and their calls (so that the body can be written out more than once).
func cloneRename(n *Node, suffix string) *Node {
	if n == nil {
		return nil
	}
	c := *n
	if n.K == KSub || n.K == KCall {
		c.S = n.S + suffix
	}
	c.Kids = nil
	for _, k := range n.Kids {
		c.Kids = append(c.Kids, cloneRename(k, suffix))
	}
	c.Body = cloneRename(n.Body, suffix)
	return &c
}

const placeholder = "\x00REF"

// substitute replaces placeholder references in the template.
func substitute(n *Node, f func() *Node) *Node {
	if n == nil {
		return nil
	}
	if n.K == KGlobal && n.S == placeholder {
		return f()
	}
	c := *n
	c.Kids = nil
	for _, k := range n.Kids {
		c.Kids = append(c.Kids, substitute(k, f))
	}
	c.Body = substitute(n.Body, f)
	return &c
}

func hasJumps(n *Node) bool {
	if n == nil {
		return false
	}
	switch n.K {
	case KOr, KIn, KLoop, KSub, KCall:
		return true
	}
	for _, k := range n.Kids {
		if hasJumps(k) {
			return true
		}
	}
	return hasJumps(n.Body)
}

type equivGen struct {
	t         *rapid.T
	refs      int
	noCounted bool
}

func (g *equivGen) ref() *Node { g.refs++; return &Node{K: KGlobal, S: placeholder} }

func (g *equivGen) contextElem() *Node {
	ctx := rapid.IntRange(0, 9).Draw(g.t, "ctx")
	if (ctx == 6 || ctx == 7) && (g.refs == 0 || g.noCounted) {
		// the code generator unrolls mandatory iterations, and a definition inside
		// them is rejected as a name clash: the first reference of a command (which
		// becomes the definition in the inline rendering) and bodies that define
		// subroutines themselves stay outside counted loops
		ctx = 8
	}
	switch ctx {
	case 6, 7:
		// a loop with mandatory iterations (unrolled by the generator): exactly n,
		// at least n, between n and n+1, around the reference alone or after a literal
		min := rapid.IntRange(1, 3).Draw(g.t, "cmin")
		max := rapid.SampledFrom([]int{-1, min, min + 1}).Draw(g.t, "cmax3")
		body := g.ref()
		if rapid.Bool().Draw(g.t, "cseq") {
			body = &Node{K: KSeq, Kids: []*Node{{K: KLit, S: rapid.SampledFrom([]string{"-", "a", " "}).Draw(g.t, "csep")}, body}}
		}
		return &Node{K: KLoop, Min: min, Max: max, Fewest: rapid.Bool().Draw(g.t, "cf3"), Body: body}
	case 0:
		return &Node{K: KLit, S: rapid.SampledFrom([]string{"a", "b", "ab", " "}).Draw(g.t, "clit")}
	case 1:
		return &Node{K: KClass, Class: rapid.SampledFrom([]string{"any", "lower", "digit"}).Draw(g.t, "ccls")}
	case 2:
		return &Node{K: KLoop, Min: 0, Max: 1, Fewest: rapid.Bool().Draw(g.t, "cf"), Body: g.ref()}
	case 3:
		return &Node{K: KLoop, Min: 0, Max: rapid.SampledFrom([]int{-1, 2}).Draw(g.t, "cmax"), Fewest: rapid.Bool().Draw(g.t, "cf2"), Body: g.ref()}
	case 4:
		return &Node{K: KOr, Kids: []*Node{g.ref(), {K: KLit, S: "b"}}}
	case 5:
		return &Node{K: KOr, Kids: []*Node{{K: KLit, S: "a"}, g.ref()}}
	default:
		return g.ref()
	}
}

func (g *equivGen) commandTemplate(maxRefs int) []*Node {
	for {
		g.refs = 0
		var body []*Node
		for i := rapid.IntRange(1, 3).Draw(g.t, "elems"); i > 0; i-- {
			body = append(body, g.contextElem())
		}
		if g.refs >= 1 && g.refs <= maxRefs {
			return body
		}
		// force at least one reference
		if g.refs == 0 {
			body = append(body, g.ref())
			return body
		}
	}
}

func renderCommand(amount string, body []*Node, replace bool) string {
	c := Command{Amount: []string{amount}, Body: body}
	if replace {
		c.Replace = true
		c.With = []WithItem{{Kind: 0, S: "<"}, {Kind: 1, S: "value"}, {Kind: 0, S: ">"}}
	}
	return strings.Join(c.Tokens(), " ")
}

func TestC13(t *testing.T) {
	seedNote(t)
	StartWatchdog("C13", 60*time.Second)
	st := NewStats("C13", "renderings", "capture-free body B (or, in, loops, not in, optional inline recursion) x context (prefix, suffix, inside maybe / at least 0 / at most 2 / counted loops with 1..3 mandatory iterations / alternation) x 1..3 references x 1..3 find or replace commands sharing definitions x text; renderings: written out, {B} = s + calls, set s to pattern B (also through a second pattern); multi-command source vs its commands taken alone; a definition with a predicate referenced directly vs through one and two further patterns; non-trivial = B has a jump-bearing construct and is referenced >= 2 times or from >= 2 commands; distinct by (reference source, text)")
	defer st.Write()
	rapid.Check(t, func(t *rapid.T) {
		f := Features{Subs: true}
		bg := &gctx{t: t, f: f, allowDef: true, loopProd: 1}
		var bodyB []*Node
		for i := rapid.IntRange(1, 2).Draw(t, "bn"); i > 0; i-- {
			bodyB = append(bodyB, bg.node(rapid.IntRange(1, 2).Draw(t, "bdepth")))
		}
		B := &Node{K: KSeq, Kids: bodyB}
		eg := &equivGen{t: t, noCounted: containsKind(B, KSub)}
		ncmd := rapid.IntRange(1, 3).Draw(t, "ncmd")
		var templates [][]*Node
		totalRefs := 0
		for i := 0; i < ncmd; i++ {
			tpl := eg.commandTemplate(3)
			templates = append(templates, tpl)
			totalRefs += eg.refs
		}
		// texts: sampled from the written-out form of the first command
		copyN := 0
		inlineBody := func(tpl []*Node) []*Node {
			out := []*Node{}
			for _, n := range tpl {
				out = append(out, substitute(n, func() *Node { copyN++; return cloneRename(B, fmt.Sprintf("x%d", copyN)) }))
			}
			return out
		}
		first := inlineBody(templates[0])
		text, _ := GenText(t, nil, first, false, 12)

		// name collision: the command defines, before it references the pattern, an inline
		// subroutine with the same name as one *inside* the stored pattern (names inside a
		// stored pattern are local to it)
		collide := ""
		var findSub func(n *Node)
		findSub = func(n *Node) {
			if n == nil || collide != "" {
				return
			}
			if n.K == KSub {
				collide = n.S
				return
			}
			for _, k := range n.Kids {
				findSub(k)
			}
			findSub(n.Body)
		}
		findSub(B)
		if collide != "" && rapid.Bool().Draw(t, "collide") {
			st.Count("name_collision_cases")
		} else {
			collide = ""
		}
		prefixSub := func(name string) *Node {
			return &Node{K: KSub, S: name, Kids: []*Node{{K: KLoop, Min: 0, Max: 1, Body: &Node{K: KLit, S: "q"}}}}
		}
		var inlineCmds, subCmds, setCmds []string
		// some commands are replace commands (the same ones in every rendering)
		asReplace := make([]bool, len(templates))
		for ci := range asReplace {
			asReplace[ci] = rapid.IntRange(0, 2).Draw(t, "asreplace") == 0
			if asReplace[ci] {
				st.Count("replace_commands")
			}
		}
		for ci, tpl := range templates {
			ib := inlineBody(tpl)
			if collide != "" {
				ib = append([]*Node{prefixSub(fmt.Sprintf("zz%d", ci))}, ib...)
			}
			inlineCmds = append(inlineCmds, renderCommand("all", ib, asReplace[ci]))
			// {B} = s at the first reference of this command, calls afterwards
			seen := false
			sname := fmt.Sprintf("s%d", ci)
			var sb []*Node
			for _, n := range tpl {
				sb = append(sb, substitute(n, func() *Node {
					if !seen {
						seen = true
						return &Node{K: KSub, S: sname, Kids: cloneRename(B, fmt.Sprintf("y%d", ci)).Kids}
					}
					return &Node{K: KCall, S: sname}
				}))
			}
			if collide != "" {
				sb = append([]*Node{prefixSub(fmt.Sprintf("zz%d", ci))}, sb...)
			}
			subCmds = append(subCmds, renderCommand("all", sb, asReplace[ci]))
			var gb []*Node
			if collide != "" {
				gb = append(gb, prefixSub(collide))
			}
			for _, n := range tpl {
				gb = append(gb, substitute(n, func() *Node { return &Node{K: KGlobal, S: "gp"} }))
			}
			setCmds = append(setCmds, renderCommand("all", gb, asReplace[ci]))
		}
		setDef := strings.Join(Global{Name: "gp", Body: B.Kids}.Tokens(), " ")
		setDef2 := strings.Join(Global{Name: "gq", Body: B.Kids}.Tokens(), " ") + " set gp to pattern gq"
		c := EquivCase{
			Sources: []string{
				strings.Join(inlineCmds, " "),
				strings.Join(subCmds, " "),
				setDef + " " + strings.Join(setCmds, " "),
				setDef2 + " " + strings.Join(setCmds, " "),
			},
			Labels: []string{"written out", "inline subroutine", "set pattern", "pattern via pattern"},
			Text:   text,
		}
		if ncmd > 1 {
			for _, sc := range setCmds {
				c.Parts = append(c.Parts, setDef+" "+sc)
			}
		}
		st.Eval()
		SetInflight(func() string { return jsonStr(Failure{Property: "C13", Kind: "equiv", Case: c}) })
		sig, what, discard, nm := checkEquivCase(c)
		ClearInflight()
		if discard {
			st.Count("discarded_vm_budget")
			return
		}
		if sig == "" && ncmd > 1 {
			// a definition placed *between* commands: `set gl to pattern gp <sep> gp` after the
			// first command, used by the later ones; reference: the body written out twice
			sep := &Node{K: KLit, S: rapid.SampledFrom([]string{"-", "a", " "}).Draw(t, "latesep")}
			var lateRef, lateSet []string
			lateRef = append(lateRef, inlineCmds[0])
			lateSet = append(lateSet, setCmds[0], strings.Join(Global{Name: "gl", Body: []*Node{{K: KGlobal, S: "gp"}, sep, {K: KGlobal, S: "gp"}}}.Tokens(), " "))
			for _, tpl := range templates[1:] {
				var rb, sb []*Node
				for _, n := range tpl {
					rb = append(rb, substitute(n, func() *Node {
						copyN += 2
						return &Node{K: KSeq, Kids: []*Node{cloneRename(B, fmt.Sprintf("x%d", copyN-1)), sep, cloneRename(B, fmt.Sprintf("x%d", copyN))}}
					}))
					sb = append(sb, substitute(n, func() *Node { return &Node{K: KGlobal, S: "gl"} }))
				}
				lateRef = append(lateRef, renderCommand("all", rb, false))
				lateSet = append(lateSet, renderCommand("all", sb, false))
			}
			c2 := EquivCase{Sources: []string{strings.Join(lateRef, " "), setDef + " " + strings.Join(lateSet, " ")},
				Labels: []string{"written out", "pattern defined between commands"}, Text: text}
			st.Count("late_definition_cases")
			SetInflight(func() string { return jsonStr(Failure{Property: "C13", Kind: "equiv", Case: c2}) })
			sig, what, discard, _ = checkEquivCase(c2)
			ClearInflight()
			if discard {
				sig = ""
			}
			c = c2
		}
		if sig == "" && rapid.IntRange(0, 2).Draw(t, "withpred") == 0 {
			// a definition with a predicate cannot be written out, but naming it once more
			// (a pattern whose body is just the reference, also two levels deep) must not
			// change what the commands match: the predicate still decides every use
			pred := genPredicate(t)
			pdef := func(name string) string {
				return strings.Join(Global{Name: name, Body: B.Kids, Pred: pred}.Tokens(), " ")
			}
			cmds := strings.Join(setCmds, " ")
			c3 := EquivCase{Sources: []string{pdef("gp") + " " + cmds, pdef("gq") + " set gp to pattern gq " + cmds, pdef("gr") + " set gq to pattern gr set gp to pattern gq " + cmds},
				Labels: []string{"predicate on the referenced pattern", "predicate one pattern down", "predicate two patterns down"}, Text: text}
			st.Count("predicate_cases")
			SetInflight(func() string { return jsonStr(Failure{Property: "C13", Kind: "equiv", Case: c3}) })
			var nm3 int
			sig, what, discard, nm3 = checkEquivCase(c3)
			ClearInflight()
			if discard {
				sig = ""
			}
			if nm3 != nm {
				st.Count("predicate_cases_predicate_rejects_some")
			}
			if sig != "" {
				c = c3
			}
		}
		if sig == "compile-error" {
			t.Fatalf("HARNESS: %s", what)
		}
		if sig != "" {
			Fail(t, Failure{Property: "C13", Kind: "equiv", What: what, Case: c, Sig: sig})
		}
		st.Max("max_variant_steps_per_reference_step_x100", maxStepRatioX100)
		st.Count(fmt.Sprintf("commands_%d", ncmd))
		st.Count(fmt.Sprintf("refs_%d", min(totalRefs, 6)))
		if nm > 0 {
			st.Count("with_match")
		}
		if hasJumps(B) && (totalRefs >= 2 || ncmd >= 2) {
			st.NonTrivial(c.Sources[0]+"\x00"+text, func() any {
				return map[string]any{"written_out": c.Sources[0], "variant": c.Sources[len(c.Sources)-1], "text": text, "matches": nm}
			})
		}
	})
}

// ---------------------------------------------------------------- histories

func TestC13History(t *testing.T) {
	seedNote(t)
	StartWatchdog("C13", 60*time.Second)
	st := NewStats("C13", "histories", "rapid state machine over compile(src_i), run(prog_j, text_k), recompile(src_i) on 3 generated sources (globals, subroutines, captures, regex groups) and 3 texts: after every step each result equals the one recorded for a fresh compile-and-run of the same (source, text); non-trivial = a history in which some program is run at least twice with another run or compile in between; distinct by the sequence of actions and sources")
	defer st.Write()
	rapid.Check(t, func(t *rapid.T) {
		var srcs []string
		var texts []string
		for i := 0; i < 3; i++ {
			globals, body := GenBodyProgram(t, AllModelFeatures, rapid.IntRange(1, 2).Draw(t, "depth"))
			prog := &Program{Globals: globals, Commands: []Command{{Amount: []string{"all"}, Body: body}}}
			if rapid.IntRange(0, 2).Draw(t, "second") == 0 {
				prog.Commands = append(prog.Commands, Command{Amount: []string{"all"}, Body: []*Node{{K: KRegex, S: rapid.SampledFrom(smallRegexes).Draw(t, "re")}}})
			}
			srcs = append(srcs, prog.Source())
			tx, _ := GenText(t, globals, body, true, 12)
			texts = append(texts, tx)
		}
		// sources that are rejected after regex groups have been numbered
		srcs = append(srcs, rapid.SampledFrom([]string{"find all @/(a)(b/", "find all @/(x)(y)/ find all (", "find all @/((a)b)c/ find all @/(/"}).Draw(t, "badsrc"))
		bad := len(srcs) - 1
		// the case in flight, for the watchdog: a call that never returns (a lock left
		// held after a rejected compile) is replayed in isolation by the driver
		history := []string{}
		SetInflight(func() string {
			h := append([]string{fmt.Sprintf("compile(%d)", len(srcs)-1)}, history...)
			h = append(h, "compile(0)")
			return jsonStr(Failure{Property: "C13", Kind: "history", Case: map[string]any{"sources": srcs, "texts": texts, "history": h}})
		})
		defer ClearInflight()
		// expectations are taken right after a successful compile (clean global state)
		CompileSafe("find all 'a'")
		fresh := map[string][]MatchRec{}
		for si := 0; si < bad; si++ {
			for ti := range texts {
				r, sig, what, discard := runSrc(srcs[si], texts[ti])
				if sig == "compile-error" {
					t.Fatalf("HARNESS: %s", what)
				}
				if discard || sig != "" {
					fresh[fmt.Sprint(si, "/", ti)] = nil // crashes are C09's business
					continue
				}
				if r == nil {
					r = []MatchRec{}
				}
				fresh[fmt.Sprint(si, "/", ti)] = r
			}
		}
		_, badErr, _ := CompileSafe(srcs[bad])
		CompileSafe("find all 'a'")
		freshOf := func(si, ti int) ([]MatchRec, bool) {
			key := fmt.Sprint(si, "/", ti)
			if r, ok := fresh[key]; ok {
				return r, r != nil
			}
			r, sig, what, discard := runSrc(srcs[si], texts[ti])
			if sig == "compile-error" {
				t.Fatalf("HARNESS: %s", what)
			}
			if discard || sig != "" {
				// crashes are C09's business; here only stability is asserted
				fresh[key] = nil
				return nil, false
			}
			if r == nil {
				r = []MatchRec{}
			}
			fresh[key] = r
			return r, true
		}
		type prog struct {
			v  *libvore.Vore
			si int
		}
		var progs []prog
		runsOf := map[int]int{}
		interleaved := false
		sawBad := false
		t.Repeat(map[string]func(*rapid.T){
			"compile": func(t *rapid.T) {
				si := rapid.IntRange(0, len(srcs)-1).Draw(t, "src")
				v, err, p := CompileSafe(srcs[si])
				history = append(history, fmt.Sprintf("compile(%d)", si))
				if si == bad {
					sawBad = true
					if p != nil || err == nil || badErr == nil || firstLine(err.Error()) != firstLine(badErr.Error()) {
						c := map[string]any{"sources": srcs, "texts": texts, "history": history}
						Fail(t, Failure{Property: "C13", Kind: "history", What: fmt.Sprintf("after history %v: compiling %q gave %v, a fresh compile gives %v", history, srcs[si], err, badErr), Case: c, Sig: "history-dependence"})
					}
					return
				}
				if p != nil || err != nil {
					c := map[string]any{"sources": srcs, "texts": texts, "history": history}
					Fail(t, Failure{Property: "C13", Kind: "history", What: fmt.Sprintf("after history %v: compiling %q failed (%v, %v) although a fresh compile succeeds", history, srcs[si], err, p), Case: c, Sig: "history-dependence"})
				}
				progs = append(progs, prog{v, si})
			},
			"run": func(t *rapid.T) {
				if len(progs) == 0 {
					t.Skip("nothing compiled")
				}
				pi := rapid.IntRange(0, len(progs)-1).Draw(t, "prog")
				ti := rapid.IntRange(0, 2).Draw(t, "text")
				want, ok := freshOf(progs[pi].si, ti)
				if !ok {
					t.Skip("no stable expectation")
				}
				res := RunSafe(progs[pi].v, texts[ti], vmLimitEquiv)
				history = append(history, fmt.Sprintf("run(p%d=src%d,text%d)", pi, progs[pi].si, ti))
				st.Eval()
				if res.OverBudget {
					return
				}
				if runsOf[pi] > 0 && len(history) > 2 {
					interleaved = true
				}
				runsOf[pi]++
				var got []MatchRec
				if res.Panic == nil {
					got = RecsOf(res.Matches)
				}
				if res.Panic != nil || !recsEqual(got, want) {
					c := map[string]any{"sources": srcs, "texts": texts, "history": history}
					what := fmt.Sprintf("after history %v: run of %s on %q gave %s, a fresh compile-and-run gives %s", history, srcs[progs[pi].si], texts[ti], fmtRecs(got), fmtRecs(want))
					if res.Panic != nil {
						what = fmt.Sprintf("after history %v: run of %s on %q panicked: %s", history, srcs[progs[pi].si], texts[ti], res.Panic.Sig())
					}
					Fail(t, Failure{Property: "C13", Kind: "history", What: what, Case: c, Sig: "history-dependence"})
				}
			},
		})
		if sawBad {
			st.Count("histories_with_rejected_compile")
		}
		if interleaved {
			st.NonTrivial(strings.Join(history, ";")+strings.Join(srcs, "\x00"), func() any {
				return map[string]any{"history": history, "sources": srcs}
			})
		}
	})
}

func init() {
	// a history is replayed by executing it literally
	registerReplay("history", func(raw json.RawMessage) (string, string) {
		var c struct {
			Sources []string `json:"sources"`
			Texts   []string `json:"texts"`
			History []string `json:"history"`
		}
		if err := json.Unmarshal(raw, &c); err != nil {
			return "bad-replay-file", err.Error()
		}
		var progs []*libvore.Vore
		var progSrc []int
		for _, h := range c.History {
			var a, b, d int
			if n, _ := fmt.Sscanf(h, "compile(%d)", &a); n == 1 {
				v, err, p := CompileSafe(c.Sources[a])
				if p != nil || err != nil {
					if a == len(c.Sources)-1 {
						continue // the deliberately rejected source
					}
					return "history-dependence", fmt.Sprintf("step %s: compile failed: %v", h, err)
				}
				progs = append(progs, v)
				progSrc = append(progSrc, a)
				continue
			}
			if n, _ := fmt.Sscanf(h, "run(p%d=src%d,text%d)", &a, &b, &d); n == 3 {
				want, sig, what, _ := runSrc(c.Sources[progSrc[a]], c.Texts[d])
				if sig != "" {
					return sig, what
				}
				res := RunSafe(progs[a], c.Texts[d], vmLimitEquiv)
				if res.Panic != nil {
					return "history-dependence", "run panicked: " + res.Panic.Sig()
				}
				if !recsEqual(RecsOf(res.Matches), want) {
					return "history-dependence", fmt.Sprintf("step %s gave %s, fresh gives %s", h, fmtRecs(RecsOf(res.Matches)), fmtRecs(want))
				}
			}
		}
		return "", ""
	})
}

func containsKind(n *Node, k Kind) bool {
	if n == nil {
		return false
	}
	if n.K == k {
		return true
	}
	for _, c := range n.Kids {
		if containsKind(c, k) {
			return true
		}
	}
	return containsKind(n.Body, k)
}

// ---------------------------------------------------------------- several files

// MultiFileCase: a multi-command source run over several files in one RunFiles call.
type MultiFileCase struct {
	Defs     string   `json:"defs"`     // definitions (may be empty)
	Commands []string `json:"commands"` // find commands
	Texts    []string `json:"texts"`    // one per file
}

// checkMultiFileCase: RunFiles(program, files) gives, command by command and file by
// file, what each command taken alone (with the definitions) gives on a string holding
// the bytes of that file; a second call with the same slice gives the same, and the
// slice the caller passed is left as it was.
func checkMultiFileCase(c MultiFileCase) (sig, what string, discard bool, nmatches int) {
	dir, err := os.MkdirTemp(scratchDir(), "mf-")
	if err != nil {
		panic(err)
	}
	defer os.RemoveAll(dir)
	var paths []string
	for i, tx := range c.Texts {
		p := filepath.Join(dir, fmt.Sprintf("f%d.txt", i))
		if err := os.WriteFile(p, []byte(tx), 0o644); err != nil {
			panic(err)
		}
		paths = append(paths, p)
	}
	var want []MatchRec
	for _, cmd := range c.Commands {
		for i, tx := range c.Texts {
			r, sig, what, discard := runSrc(strings.TrimSpace(c.Defs+" "+cmd), tx)
			if discard || sig != "" {
				return sig, what, discard, 0
			}
			for _, m := range r {
				m.Filename = paths[i]
				want = append(want, m)
			}
		}
	}
	src := strings.TrimSpace(c.Defs + " " + strings.Join(c.Commands, " "))
	v, cerr, p := CompileSafe(src)
	if p != nil || cerr != nil {
		return "rendering-rejected", fmt.Sprintf("%s: every command compiles alone, the whole source does not (%v %v)", src, cerr, p), false, 0
	}
	arg := append([]string{}, paths...)
	for round := 1; round <= 2; round++ {
		res := RunFilesSafe(v, arg, engine.NOTHING, int64(vmLimitEquiv)*int64(len(c.Texts)*len(c.Commands)))
		if res.OverBudget {
			return "", "", true, 0
		}
		if res.Panic != nil {
			return res.Panic.Sig(), fmt.Sprintf("RunFiles of %s over %d files panicked (call %d): %s", src, len(paths), round, res.Panic.Sig()), false, 0
		}
		if !reflect.DeepEqual(arg, paths) {
			return "caller-slice-changed", fmt.Sprintf("RunFiles of %s changed the file list it was given: %v -> %v", src, paths, arg), false, 0
		}
		got := RecsOf(res.Matches)
		if !recsEqual(got, want) {
			return "command-dependence", fmt.Sprintf("RunFiles of %s over files holding %q (call %d) gives %s, its commands taken alone on the same bytes give %s", src, c.Texts, round, fmtRecs(got), fmtRecs(want)), false, 0
		}
	}
	return "", "", false, len(want)
}

func init() {
	registerReplay("multifile", func(raw json.RawMessage) (string, string) {
		var c MultiFileCase
		if err := json.Unmarshal(raw, &c); err != nil {
			return "bad-replay-file", err.Error()
		}
		sig, what, _, _ := checkMultiFileCase(c)
		return sig, what
	})
}

func TestC13Files(t *testing.T) {
	seedNote(t)
	StartWatchdog("C13", 60*time.Second)
	st := NewStats("C13", "files", "generated definitions + 1..3 find commands run with one RunFiles call over 1..3 files (texts sampled from the bodies): the result equals, command by command and file by file, the results of each command taken alone with the definitions on a string holding the file's bytes; a second call with the same list gives the same and the caller's list is unchanged; non-trivial = at least 2 commands (definitions count: they are commands of the program), at least 2 files and at least one match; distinct by (source, texts)")
	defer st.Write()
	rapid.Check(t, func(t *rapid.T) {
		globals, body := GenBodyProgram(t, AllModelFeatures, rapid.IntRange(1, 2).Draw(t, "depth"))
		var defParts []string
		for _, g := range globals {
			defParts = append(defParts, strings.Join(g.Tokens(), " "))
		}
		defs := strings.Join(defParts, " ")
		c := MultiFileCase{Defs: defs}
		ncmd := rapid.IntRange(1, 3).Draw(t, "ncmd")
		c.Commands = append(c.Commands, (&Program{Commands: []Command{{Amount: []string{"all"}, Body: body}}}).Source())
		for i := 1; i < ncmd; i++ {
			c.Commands = append(c.Commands, "find "+rapid.SampledFrom([]string{"all", "top 1", "skip 1", "last 1"}).Draw(t, "amount")+" "+rapid.SampledFrom([]string{"'a'", "at least 1 letter", "@/a+|b/", "line start any", "(digit or 'b') = v"}).Draw(t, "cmd"))
		}
		for i := rapid.IntRange(1, 3).Draw(t, "nfiles"); i > 0; i-- {
			tx, _ := GenText(t, globals, body, true, 12)
			c.Texts = append(c.Texts, tx)
		}
		st.Eval()
		SetInflight(func() string { return jsonStr(Failure{Property: "C13", Kind: "multifile", Case: c}) })
		sig, what, discard, nm := checkMultiFileCase(c)
		ClearInflight()
		if discard {
			st.Count("discarded_vm_budget")
			return
		}
		if sig == "compile-error" {
			t.Fatalf("HARNESS: %s", what)
		}
		if sig != "" {
			Fail(t, Failure{Property: "C13", Kind: "multifile", What: what, Case: c, Sig: sig})
		}
		st.Count(fmt.Sprintf("files_%d", len(c.Texts)))
		st.Count(fmt.Sprintf("commands_%d", ncmd))
		if defs != "" {
			st.Count("with_definitions")
		}
		if (ncmd >= 2 || defs != "") && len(c.Texts) >= 2 && nm > 0 {
			src := defs + " " + strings.Join(c.Commands, " ")
			st.NonTrivial(src+"\x00"+strings.Join(c.Texts, "\x00"), func() any {
				return map[string]any{"source": src, "texts": c.Texts, "matches": nm}
			})
		}
	})
}
