package props

import (
	"encoding/json"
	"fmt"
	"regexp"
	"strings"
	"testing"
	"time"

	"pgregory.net/rapid"
)

// RE is the regex AST of the subset stated by C14.
type RE struct {
	K     string `json:"k"` // lit dot class esc group ncgroup named alt seq bol eol ref nref
	S     string `json:"s,omitempty"`
	Kids  []*RE  `json:"kids,omitempty"`
	Quant bool   `json:"quant,omitempty"`
	Min   int    `json:"min,omitempty"`
	Max   int    `json:"max,omitempty"`
	Lazy  bool   `json:"lazy,omitempty"`
	No    int    `json:"no,omitempty"` // group number (unnamed groups, by opening parenthesis)
}

type rgen struct {
	t        *rapid.T
	groups   int
	closed   []int
	names    []string
	nameN    int
	refs     bool
	named    bool // named groups allowed (never together with numbered references: K5)
	excluded map[string]int
}

func (g *rgen) atom(depth int, noCapture bool) *RE {
	choices := []string{"lit", "lit", "lit", "dot", "class", "esc"}
	if depth > 0 {
		choices = append(choices, "ncgroup", "ncgroup", "altgroup")
		if !noCapture {
			choices = append(choices, "group", "group")
			if g.named {
				choices = append(choices, "named")
			}
		} else {
			g.excluded["K4_capture_under_min1_quantifier"]++
		}
	}
	if g.refs && len(g.closed) > 0 {
		choices = append(choices, "ref", "ref")
	}
	if g.refs && len(g.names) > 0 {
		choices = append(choices, "nref", "nref")
	}
	switch rapid.SampledFrom(choices).Draw(g.t, "ratom") {
	case "lit":
		return &RE{K: "lit", S: rapid.SampledFrom([]string{"a", "b", "c", "0", " ", "-"}).Draw(g.t, "rlit")}
	case "dot":
		return &RE{K: "dot"}
	case "class":
		return &RE{K: "class", S: rapid.SampledFrom([]string{"[ab]", "[a-c]", "[^a]", "[^ab]", "[0-9a]", "[b-]", "[^a-b0]", "[c]", "[^ \n]"}).Draw(g.t, "rclass")}
	case "esc":
		return &RE{K: "esc", S: rapid.SampledFrom([]string{`\d`, `\D`, `\s`, `\S`}).Draw(g.t, "resc")}
	case "ncgroup":
		return &RE{K: "ncgroup", Kids: []*RE{g.seq(depth-1, noCapture)}}
	case "altgroup":
		kind := "ncgroup"
		n := &RE{K: kind}
		if !noCapture && rapid.Bool().Draw(g.t, "altcap") {
			n.K = "group"
			g.groups++
			n.No = g.groups
		}
		alt := &RE{K: "alt"}
		for i := rapid.IntRange(2, 3).Draw(g.t, "naltn"); i > 0; i-- {
			alt.Kids = append(alt.Kids, g.quantified(depth-1, noCapture))
		}
		n.Kids = []*RE{alt}
		if n.K == "group" {
			g.closed = append(g.closed, n.No)
		}
		return n
	case "group":
		g.groups++
		no := g.groups
		n := &RE{K: "group", No: no, Kids: []*RE{g.seq(depth-1, noCapture)}}
		g.closed = append(g.closed, no)
		return n
	case "named":
		g.nameN++
		name := fmt.Sprintf("n%d", g.nameN)
		n := &RE{K: "named", S: name, Kids: []*RE{g.seq(depth-1, noCapture)}}
		g.names = append(g.names, name)
		return n
	case "ref":
		return &RE{K: "ref", No: rapid.SampledFrom(g.closed).Draw(g.t, "refno")}
	case "nref":
		return &RE{K: "nref", S: rapid.SampledFrom(g.names).Draw(g.t, "nrefname")}
	}
	panic("ratom")
}

func (g *rgen) quantified(depth int, noCapture bool) *RE {
	q := rapid.IntRange(0, 9).Draw(g.t, "quant")
	if q >= 5 {
		return g.atom(depth, noCapture)
	}
	n := &RE{Quant: true}
	switch q {
	case 0:
		n.Min, n.Max = 0, -1
	case 1:
		n.Min, n.Max = 1, -1
	case 2:
		n.Min, n.Max = 0, 1
	case 3:
		n.Min = rapid.IntRange(0, 3).Draw(g.t, "qmin")
		n.Max = n.Min
		if rapid.Bool().Draw(g.t, "qopen") {
			n.Max = -1
		}
	case 4:
		n.Min = rapid.IntRange(0, 2).Draw(g.t, "qmin2")
		n.Max = n.Min + rapid.IntRange(0, 2).Draw(g.t, "qmaxd")
	}
	n.Lazy = rapid.IntRange(0, 2).Draw(g.t, "qlazy") == 0
	inner := noCapture || n.Min >= 1 || n.Max == 0
	for tries := 0; ; tries++ {
		save := *g
		a := g.atom(depth, inner)
		if !reNullable(a) {
			n.Kids = []*RE{a}
			break
		}
		*g = save
		if tries > 5 {
			n.Kids = []*RE{{K: "lit", S: "a"}}
			break
		}
	}
	return n
}

func (g *rgen) seq(depth int, noCapture bool) *RE {
	n := &RE{K: "seq"}
	for i := rapid.IntRange(1, 3).Draw(g.t, "rseqn"); i > 0; i-- {
		if rapid.IntRange(0, 9).Draw(g.t, "ranchor") == 0 {
			n.Kids = append(n.Kids, &RE{K: rapid.SampledFrom([]string{"bol", "eol"}).Draw(g.t, "ranch")})
		}
		n.Kids = append(n.Kids, g.quantified(depth, noCapture))
	}
	return n
}

func reNullable(r *RE) bool {
	if r.Quant {
		return r.Min == 0 || reNullable(r.Kids[0])
	}
	switch r.K {
	case "lit", "dot", "class", "esc":
		return false
	case "bol", "eol", "ref", "nref":
		return true
	case "seq":
		for _, k := range r.Kids {
			if !reNullable(k) {
				return false
			}
		}
		return true
	case "alt":
		for _, k := range r.Kids {
			if reNullable(k) {
				return true
			}
		}
		return false
	default:
		return reNullable(r.Kids[0])
	}
}

// reWrapAlts makes String put every alternative in a capture group (for Go only:
// it switches off regexp/syntax's alternation factoring; group numbers change, so
// only spans are compared with that rendering).
var reWrapAlts bool

func (r *RE) String() string {
	if r.Quant {
		var q string
		switch {
		case r.Min == 0 && r.Max == -1:
			q = "*"
		case r.Min == 1 && r.Max == -1:
			q = "+"
		case r.Min == 0 && r.Max == 1:
			q = "?"
		case r.Max == -1:
			q = fmt.Sprintf("{%d,}", r.Min)
		case r.Min == r.Max:
			q = fmt.Sprintf("{%d}", r.Min)
		default:
			q = fmt.Sprintf("{%d,%d}", r.Min, r.Max)
		}
		if r.Lazy {
			q += "?"
		}
		return r.Kids[0].String() + q
	}
	switch r.K {
	case "lit":
		return r.S
	case "dot":
		return "."
	case "class", "esc":
		return r.S
	case "bol":
		return "^"
	case "eol":
		return "$"
	case "ncgroup":
		return "(?:" + r.Kids[0].String() + ")"
	case "group":
		return "(" + r.Kids[0].String() + ")"
	case "named":
		return "(?<" + r.S + ">" + r.Kids[0].String() + ")"
	case "ref":
		return fmt.Sprintf("\\%d", r.No)
	case "nref":
		return "\\k<" + r.S + ">"
	case "seq":
		var b strings.Builder
		for i, k := range r.Kids {
			s := k.String()
			// a numbered reference directly followed by a digit would read as \10
			if i > 0 && r.Kids[i-1].K == "ref" && !r.Kids[i-1].Quant && len(s) > 0 && s[0] >= '0' && s[0] <= '9' {
				b.WriteString("(?:" + s + ")")
				continue
			}
			b.WriteString(s)
		}
		return b.String()
	case "alt":
		parts := []string{}
		for _, k := range r.Kids {
			if reWrapAlts {
				parts = append(parts, "("+k.String()+")")
			} else {
				parts = append(parts, k.String())
			}
		}
		return strings.Join(parts, "|")
	}
	panic("restr " + r.K)
}

// classItems translates a bracket class of the generator's pool.
func classToNode(s string) *Node {
	inner := s[1 : len(s)-1]
	n := &Node{K: KIn}
	if inner[0] == '^' {
		n.Not = true
		inner = inner[1:]
	}
	for i := 0; i < len(inner); i++ {
		if i+2 < len(inner) && inner[i+1] == '-' {
			n.Items = append(n.Items, Item{Kind: 1, From: inner[i : i+1], To: inner[i+2 : i+3]})
			i += 2
			continue
		}
		n.Items = append(n.Items, Item{Kind: 0, S: inner[i : i+1]})
	}
	return n
}

// ToIR translates the regex by its conventional meaning into the pattern IR of
// the reference matcher.
func (r *RE) ToIR() *Node {
	if r.Quant {
		return &Node{K: KLoop, Min: r.Min, Max: r.Max, Fewest: r.Lazy, Body: r.Kids[0].ToIR()}
	}
	switch r.K {
	case "lit":
		return &Node{K: KLit, S: r.S}
	case "dot":
		return &Node{K: KLit, S: "\n", Not: true}
	case "class":
		return classToNode(r.S)
	case "esc":
		switch r.S {
		case `\d`:
			return &Node{K: KClass, Class: "digit"}
		case `\D`:
			return &Node{K: KClass, Class: "digit", Not: true}
		case `\s`:
			return &Node{K: KClass, Class: "whitespace"}
		case `\S`:
			return &Node{K: KClass, Class: "whitespace", Not: true}
		}
	case "bol":
		return &Node{K: KAnchor, Class: "line start"}
	case "eol":
		return &Node{K: KAnchor, Class: "line end"}
	case "ncgroup":
		return &Node{K: KSeq, Kids: []*Node{r.Kids[0].ToIR()}}
	case "group":
		return &Node{K: KCap, S: fmt.Sprintf("_%d", r.No), Body: &Node{K: KSeq, Kids: []*Node{r.Kids[0].ToIR()}}}
	case "named":
		return &Node{K: KCap, S: r.S, Body: &Node{K: KSeq, Kids: []*Node{r.Kids[0].ToIR()}}}
	case "ref":
		return &Node{K: KRef, S: fmt.Sprintf("_%d", r.No)}
	case "nref":
		return &Node{K: KRef, S: r.S}
	case "seq":
		n := &Node{K: KSeq}
		for _, k := range r.Kids {
			n.Kids = append(n.Kids, k.ToIR())
		}
		return n
	case "alt":
		n := &Node{K: KOr}
		for _, k := range r.Kids {
			n.Kids = append(n.Kids, k.ToIR())
		}
		return n
	}
	panic("toir " + r.K)
}

func (r *RE) hasRef() bool {
	if r.K == "ref" || r.K == "nref" {
		return true
	}
	for _, k := range r.Kids {
		if k.hasRef() {
			return true
		}
	}
	return false
}

func (r *RE) hasQuantOrAlt() bool {
	if r.Quant || r.K == "alt" {
		return true
	}
	for _, k := range r.Kids {
		if k.hasQuantOrAlt() {
			return true
		}
	}
	return false
}

func goRegexSyntax(s string) string {
	s = strings.ReplaceAll(s, "(?<", "(?P<")
	s = strings.ReplaceAll(s, `\s`, `[ \t\n\r]`)
	s = strings.ReplaceAll(s, `\S`, `[^ \t\n\r]`)
	return s
}

// RegexCase is replayable without the AST: the expectation is stored.
type RegexCase struct {
	Regex  string `json:"regex"`
	Text   string `json:"text"`
	Want   []Span `json:"want"`
	Prefix string `json:"prefix,omitempty"` // definitions placed before the command
}

func checkRegexCase(c RegexCase) (sig, what string, discard bool) {
	sc := SpanCase{Src: strings.TrimSpace(c.Prefix + " find all @/" + c.Regex + "/"), Text: c.Text, Want: c.Want, CheckVars: true}
	return checkSpanCase(sc)
}

func init() {
	registerReplay("regex", func(raw json.RawMessage) (string, string) {
		var c RegexCase
		if err := json.Unmarshal(raw, &c); err != nil {
			return "bad-replay-file", err.Error()
		}
		sig, what, _ := checkRegexCase(c)
		return sig, what
	})
}

// goRegexSpans evaluates the regex with Go's regexp position by position and
// returns spans with the group bindings (unset groups are absent).
func goRegexSpans(re string, names map[int]string, text string) ([]Span, error) {
	var spans []Span
	pos := 0
	for pos < len(text) {
		rx, err := regexp.Compile(fmt.Sprintf(`\A(?s:.{%d})(?m:(%s))`, pos, re))
		if err != nil {
			return nil, err
		}
		loc := rx.FindStringSubmatchIndex(text)
		if loc != nil && loc[3] > pos {
			vars := map[string]string{}
			for gi := 2; 2*gi+1 < len(loc); gi++ {
				if loc[2*gi] >= 0 {
					name := rx.SubexpNames()[gi]
					if name == "" {
						name = names[gi]
					}
					vars[name] = text[loc[2*gi]:loc[2*gi+1]]
				}
			}
			spans = append(spans, Span{Start: pos, End: loc[3], Vars: vars})
			pos = loc[3]
		} else {
			pos++
		}
	}
	return spans, nil
}

var c14TextPieces = []string{"a", "a", "b", "c", "0", "1", " ", "\n", "-", "\t", "ab"}

func TestC14(t *testing.T) {
	seedNote(t)
	StartWatchdog("C14", 60*time.Second)
	st := NewStats("C14", "regex", "regex ASTs of the stated subset (literals, ., bracket classes with ranges and negation, \\d \\D \\s \\S, plain / non-capturing / named groups, * + ? {m} {m,} {m,n} and lazy forms on non-nullable bodies, alternation of single atoms or groups as the whole content of a group or of the regex, ^ $, numbered and named back-references to closed groups) x texts over {a b c 0 1 - space tab newline} (an eighth with NUL bytes, and for regexes with back-references a quarter with multi-byte UTF-8 characters), half of them sampled from the regex; oracles: the reference matcher on the conventional translation (spans and group bindings) and, for back-reference-free regexes, Go regexp position by position; non-trivial = the regex has a quantifier or alternation and the text has >= 1 match; distinct by (regex,text)")
	defer st.Write()
	rapid.Check(t, func(t *rapid.T) {
		if rapid.IntRange(0, 3).Draw(t, "afterrejected") == 0 {
			// a compile that is rejected after the regex parser has opened groups must
			// leave nothing behind for the next one
			CompileSafe(rapid.SampledFrom([]string{"find all @/(a)(b)(?=c)/", "find all @/(a)((b)/", "find all @/(?<n>a)(b/ 'x'", "find all @/(a)(b)/ ("}).Draw(t, "rejected"))
			st.Count("after_a_rejected_compile")
		}
		g := &rgen{t: t, excluded: map[string]int{}}
		mode := rapid.IntRange(0, 2).Draw(t, "mode")
		g.refs = mode != 0
		// K5: numbered references and named groups are never mixed
		g.named = rapid.Bool().Draw(t, "named")
		depth := rapid.IntRange(0, 2).Draw(t, "rdepth")
		var re *RE
		if rapid.IntRange(0, 4).Draw(t, "topalt") == 0 {
			re = &RE{K: "alt"}
			for i := rapid.IntRange(2, 3).Draw(t, "topaltn"); i > 0; i-- {
				re.Kids = append(re.Kids, g.quantified(depth, false))
			}
		} else {
			re = g.seq(depth, false)
			if mode == 2 && !re.hasRef() {
				// forced mode: one closed group and a reference to it
				g.groups++
				grp := &RE{K: "group", No: g.groups, Kids: []*RE{g.seq(0, true)}}
				ref := &RE{K: "ref", No: grp.No}
				re.Kids = append(re.Kids, grp)
				if rapid.Bool().Draw(t, "between") {
					re.Kids = append(re.Kids, g.quantified(0, true))
				}
				re.Kids = append(re.Kids, ref)
			}
		}
		for k, v := range g.excluded {
			st.Add("excluded_"+k, int64(v))
		}
		if g.named && reHasNumberedRef(re) && reHasNamedGroup(re) {
			st.Count("excluded_K5_numbered_ref_with_named_group")
			return
		}
		res := re.String()
		ir := re.ToIR()
		var text string
		if rapid.Bool().Draw(t, "sampled") {
			text = GenC14Noise(t, 2) + SampleFromPattern(t, nil, []*Node{ir}) + GenC14Noise(t, 2)
		} else {
			text = GenC14Noise(t, 7)
		}
		text = strings.ReplaceAll(text, "\r", "")
		if len(text) > 14 {
			text = text[:14]
		}
		// other classes of bytes: NUL for every `1`; for regexes with a back-reference
		// (Go's regexp, which reads runes, is not consulted for those) multi-byte UTF-8
		// characters for every `c` and `0`, so that repeated characters stay repeated
		switch rapid.IntRange(0, 7).Draw(t, "databytes") {
		case 0:
			if strings.Contains(text, "1") {
				text = strings.ReplaceAll(text, "1", "\x00")
				st.Count("text_with_nul")
			}
		case 1, 2:
			if re.hasRef() && strings.ContainsAny(text, "c0") {
				text = strings.ReplaceAll(strings.ReplaceAll(text, "c", "\u00e9"), "0", "\u65e5")
				st.Count("text_with_multibyte_characters")
			}
		}
		st.Eval()
		m := &refTracker{}
		mr := modelFindAllTracked([]*Node{ir}, text, modelBudget, m)
		if mr.OverBudget {
			st.Count("discarded_budget")
			return
		}
		if m.unboundRef {
			// what a reference to a group that did not participate does is engine specific
			st.Count("discarded_unset_group_reference")
			return
		}
		want := mr.Spans
		if !re.hasRef() {
			names := map[int]string{}
			for i := 1; i <= g.groups; i++ {
				names[i+1] = fmt.Sprintf("_%d", i)
			}
			gore := goRegexSyntax(res)
			// Go numbers named groups as well: map submatch index -> vore name
			names = goGroupNames(re)
			want2, err := goRegexSpans(gore, names, text)
			if err != nil {
				t.Fatalf("HARNESS: Go rejects %q: %v", gore, err)
			}
			st.Count("goregex_compared")
			if !spansEqual(want2, want, false) {
				// second opinion with regexp/syntax's alternation factoring switched off
				reWrapAlts = true
				gore2 := goRegexSyntax(re.String())
				reWrapAlts = false
				want3, err3 := goRegexSpans(gore2, map[int]string{}, text)
				if err3 != nil || !spansEqual(want3, want, false) {
					t.Fatalf("HARNESS oracle disagreement on spans: /%s/ on %q: model %s go %s", res, text, fmtSpans(want, false), fmtSpans(want2, false))
				}
				st.Count("goregex_factoring_bug_sidestepped")
				want2 = want // bindings are then taken from the reference matcher only
			}
			if !spansEqual(want2, want, true) {
				// group bindings of repeated groups differ between engine families: not a verdict
				st.Count("discarded_engine_dependent_bindings")
				return
			}
		}
		c := RegexCase{Regex: res, Text: text, Want: want}
		if names := reGroupNames(re); len(names) > 0 && rapid.IntRange(0, 3).Draw(t, "shadowdef") == 0 {
			// an unused definition with the name of a named group: inside the regex the
			// name is the group
			c.Prefix = "set " + rapid.SampledFrom(names).Draw(t, "shadowname") + " to pattern 'q'"
			st.Count("group_named_like_a_definition")
		}
		SetInflight(func() string { return jsonStr(Failure{Property: "C14", Kind: "regex", Case: c}) })
		sig, what, discard := checkRegexCase(c)
		ClearInflight()
		if discard {
			st.Count("discarded_vm_budget")
			return
		}
		if sig != "" {
			// a regex of the stated subset that does not compile reports nothing at all:
			// that is a violation too (K4 / K5 shapes are excluded by construction)
			Fail(t, Failure{Property: "C14", Kind: "regex", What: fmt.Sprintf("@/%s/ on %q: %s", res, text, what), Case: c, Sig: sig})
		}
		st.Count("compared")
		if re.hasRef() {
			st.Count("with_backreference")
			if len(want) > 0 {
				st.Count("with_backreference_and_match")
			}
		}
		if len(want) > 0 {
			st.Count("with_match")
		}
		if re.hasQuantOrAlt() && len(want) > 0 {
			st.NonTrivial(res+"\x00"+text, func() any { return map[string]any{"regex": res, "text": text, "spans": fmtSpans(want, true)} })
		}
	})
}

func GenC14Noise(t *rapid.T, n int) string {
	return strings.Join(rapid.SliceOfN(rapid.SampledFrom(c14TextPieces), 0, n).Draw(t, "noise"), "")
}

func reHasNumberedRef(r *RE) bool {
	if r.K == "ref" {
		return true
	}
	for _, k := range r.Kids {
		if reHasNumberedRef(k) {
			return true
		}
	}
	return false
}

func reHasNamedGroup(r *RE) bool {
	if r.K == "named" {
		return true
	}
	for _, k := range r.Kids {
		if reHasNamedGroup(k) {
			return true
		}
	}
	return false
}

// goGroupNames maps Go submatch indexes (offset by the wrapper group) to vore
// variable names, walking the groups in order of their opening parenthesis.
func goGroupNames(r *RE) map[int]string {
	names := map[int]string{}
	idx := 1 // submatch 1 is the wrapper
	var walk func(r *RE)
	walk = func(r *RE) {
		switch r.K {
		case "group":
			idx++
			names[idx] = fmt.Sprintf("_%d", r.No)
		case "named":
			idx++
			names[idx] = r.S
		}
		for _, k := range r.Kids {
			walk(k)
		}
	}
	walk(r)
	return names
}

// refTracker lets the model report that a reference was evaluated while unbound.
type refTracker struct{ unboundRef bool }

func modelFindAllTracked(body []*Node, text string, budget int, tr *refTracker) ModelResult {
	trackUnbound = tr
	defer func() { trackUnbound = nil }()
	return ModelFindAll(nil, body, text, budget)
}

// TestC14ManyGroups: regexes with 10..20 capturing groups and a back-reference to
// each of them in turn (two-digit references).
func TestC14ManyGroups(t *testing.T) {
	seedNote(t)
	StartWatchdog("C14", 60*time.Second)
	st := NewStats("C14", "manygroups", "exhaustive over (n, k): n in {9, 10, 11, 12, 20} single-letter capturing groups followed by `-` and a back-reference to group k, 1 <= k <= n, on a text holding the letters, `-` and each letter in turn; oracle: the reference matcher on the conventional translation (spans and all n group bindings); every case non-trivial; distinct by (n, k)")
	st.Exhaustive = true
	defer st.Write()
	for _, n := range []int{9, 10, 11, 12, 20} {
		letters := "abcdefghijklmnopqrst"[:n]
		var text strings.Builder
		for i := 0; i < n; i++ {
			text.WriteString(letters + "-" + letters[i:i+1] + "0 ")
		}
		for k := 1; k <= n; k++ {
			re := &RE{K: "seq"}
			for i := 0; i < n; i++ {
				re.Kids = append(re.Kids, &RE{K: "group", No: i + 1, Kids: []*RE{{K: "lit", S: letters[i : i+1]}}})
			}
			re.Kids = append(re.Kids, &RE{K: "lit", S: "-"}, &RE{K: "ref", No: k})
			res := re.String()
			mr := ModelFindAll(nil, []*Node{re.ToIR()}, text.String(), modelBudget)
			if mr.OverBudget || len(mr.Spans) != 1 {
				t.Fatalf("HARNESS: reference matcher on /%s/: over budget %v, %d spans", res, mr.OverBudget, len(mr.Spans))
			}
			c := RegexCase{Regex: res, Text: text.String(), Want: mr.Spans}
			st.Eval()
			sig, what, discard := checkRegexCase(c)
			if discard {
				t.Fatalf("HARNESS: VM budget on /%s/", res)
			}
			if sig != "" {
				Fail(t, Failure{Property: "C14", Kind: "regex", What: fmt.Sprintf("@/%s/ : %s", res, clipMsg(what, 500)), Case: c, Sig: sig})
			}
			st.NonTrivial(fmt.Sprint(n, k), func() any { return map[string]any{"regex": res, "groups": n, "reference": k} })
		}
	}
}

func reGroupNames(r *RE) []string {
	var out []string
	var walk func(r *RE)
	walk = func(r *RE) {
		if r.K == "named" {
			out = append(out, r.S)
		}
		for _, k := range r.Kids {
			walk(k)
		}
	}
	walk(r)
	return out
}

// TestC14Counts: counted quantifiers far beyond the bounds the random generator
// draws ({m}, {m,}, {m,n} with m up to 64 as in hex ids, phone numbers, hashes), on
// runs just below, at and above the bounds. Oracle: Go regexp, anchored at each
// position (no anchors, alternation or references in these regexes).
func TestC14Counts(t *testing.T) {
	seedNote(t)
	StartWatchdog("C14", 60*time.Second)
	st := NewStats("C14", "counts", "exhaustive over atom in {a, [ab], \\d, (?:ab), [^-]} x m in {0..13, 16, 31, 32, 33, 64} x {m}, {m,}, {m,m+1}, {m,m+7} x greedy / lazy x followed by `-` or by nothing, on a text of runs of m-1, m, m+1, m+7, m+8 repetitions; oracle: Go regexp anchored at every position (spans); non-trivial = at least one match; distinct by regex")
	st.Exhaustive = true
	defer st.Write()
	atoms := []struct{ re, unit string }{{"a", "a"}, {"[ab]", "b"}, {`\d`, "7"}, {"(?:ab)", "ab"}, {"[^-]", "x"}}
	for _, a := range atoms {
		for _, m := range []int{0, 1, 2, 3, 4, 5, 6, 7, 8, 9, 10, 11, 12, 13, 16, 31, 32, 33, 64} {
			var text strings.Builder
			for _, k := range []int{m - 1, m, m + 1, m + 7, m + 8} {
				if k >= 0 {
					text.WriteString(strings.Repeat(a.unit, k) + "- ")
				}
			}
			for _, q := range []string{fmt.Sprintf("{%d}", m), fmt.Sprintf("{%d,}", m), fmt.Sprintf("{%d,%d}", m, m+1), fmt.Sprintf("{%d,%d}", m, m+7)} {
				for _, lazy := range []string{"", "?"} {
					for _, tail := range []string{"", "-"} {
						re := a.re + q + lazy + tail
						rx, err := regexp.Compile(`\A(?:` + re + `)`)
						if err != nil {
							t.Fatalf("HARNESS: Go regexp rejects %s: %v", re, err)
						}
						txt := text.String()
						var want []Span
						for pos := 0; pos < len(txt); {
							if loc := rx.FindStringIndex(txt[pos:]); loc != nil && loc[1] > 0 {
								want = append(want, Span{Start: pos, End: pos + loc[1]})
								pos += loc[1]
							} else {
								pos++
							}
						}
						c := RegexCase{Regex: re, Text: txt, Want: want}
						st.Eval()
						sig, what, discard := checkRegexCase(c)
						if discard {
							st.Count("discarded_vm_budget")
							continue
						}
						if sig != "" {
							Fail(t, Failure{Property: "C14", Kind: "regex", What: fmt.Sprintf("@/%s/ : %s", re, clipMsg(what, 500)), Case: c, Sig: sig})
						}
						if len(want) > 0 {
							st.NonTrivial(re, func() any { return map[string]any{"regex": re, "text_bytes": len(txt), "matches": len(want)} })
						}
					}
				}
			}
		}
	}
}
