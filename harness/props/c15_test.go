package props

import (
	"bytes"
	"encoding/json"
	"fmt"
	"os"
	"os/exec"
	"path/filepath"
	"reflect"
	"strings"
	"testing"
	"time"

	"github.com/jmeaster30/vore/libvore/ast"
	"pgregory.net/rapid"
)

// LayoutCase: two layouts of the same token sequence.
type LayoutCase struct {
	Orig    string   `json:"orig"`
	Variant string   `json:"variant"`
	Texts   []string `json:"texts"`
}

const vmLimitLayout = 60_000

func parseSafe(src string) (tree *ast.Ast, err error, p *PanicInfo) {
	defer func() {
		if r := recover(); r != nil {
			p = capturePanic(r)
		}
	}()
	tree, err = ast.ParseReader(strings.NewReader(src))
	return
}

func checkLayoutCase(c LayoutCase) (sig, what string) {
	v1, e1, p1 := CompileSafe(c.Orig)
	v2, e2, p2 := CompileSafe(c.Variant)
	if p1 != nil {
		return p1.Sig(), "Compile panicked on " + c.Orig
	}
	if p2 != nil {
		return p2.Sig(), fmt.Sprintf("Compile panicked on the re-laid-out source %q: %s", c.Variant, p2.Sig())
	}
	if (e1 == nil) != (e2 == nil) {
		msg := "accepted"
		if e2 != nil {
			msg = "rejected: " + firstLine(e2.Error())
		}
		orig := "accepted"
		if e1 != nil {
			orig = "rejected: " + firstLine(e1.Error())
		}
		return "acceptance-differs", fmt.Sprintf("original %q is %s, but the re-laid-out source %q is %s", c.Orig, orig, c.Variant, msg)
	}
	// the re-laid-out source read from a file (CompileFile, the CLI's -src) is the same program
	v3, e3, p3 := CompileFileSafe(c.Variant)
	if p3 != nil {
		return p3.Sig(), fmt.Sprintf("CompileFile panicked on the re-laid-out source %q: %s", c.Variant, p3.Sig())
	}
	if (e3 == nil) != (e2 == nil) {
		return "acceptance-differs", fmt.Sprintf("the re-laid-out source %q: Compile says %v, CompileFile on a file holding the same bytes says %v", c.Variant, errLine(e2), errLine(e3))
	}
	if e1 != nil {
		return "", ""
	}
	t1, _, _ := parseSafe(c.Orig)
	t2, _, _ := parseSafe(c.Variant)
	if t1 == nil || t2 == nil || !reflect.DeepEqual(t1.Commands(), t2.Commands()) {
		return "ast-differs", fmt.Sprintf("original %q and re-laid-out %q parse to different trees", c.Orig, c.Variant)
	}
	for _, text := range c.Texts {
		r1 := RunSafe(v1, text, vmLimitLayout)
		r2 := RunSafe(v2, text, vmLimitLayout)
		if r1.OverBudget || r2.OverBudget || r1.Panic != nil {
			continue
		}
		if r2.Panic != nil {
			return r2.Panic.Sig(), fmt.Sprintf("re-laid-out %q panics on %q", c.Variant, text)
		}
		if !recsEqual(RecsOf(r1.Matches), RecsOf(r2.Matches)) {
			return "results-differ", fmt.Sprintf("original %q and re-laid-out %q give different results on %q", c.Orig, c.Variant, text)
		}
		r3 := RunSafe(v3, text, vmLimitLayout)
		if r3.OverBudget {
			continue
		}
		if r3.Panic != nil {
			return r3.Panic.Sig(), fmt.Sprintf("re-laid-out %q compiled from a file panics on %q", c.Variant, text)
		}
		if !recsEqual(RecsOf(r1.Matches), RecsOf(r3.Matches)) {
			return "results-differ", fmt.Sprintf("original %q and re-laid-out %q compiled from a file give different results on %q", c.Orig, c.Variant, text)
		}
	}
	return "", ""
}

func init() {
	registerReplay("layout", func(raw json.RawMessage) (string, string) {
		var c LayoutCase
		if err := json.Unmarshal(raw, &c); err != nil {
			return "bad-replay-file", err.Error()
		}
		return checkLayoutCase(c)
	})
}

func tokenKind(tok string) string {
	if tok == "" {
		return "edge"
	}
	l := strings.ToLower(tok)
	switch {
	case keywords[l]:
		return "kw:" + l
	case tok[0] == '\'' || tok[0] == '"':
		return "string"
	case tok[0] >= '0' && tok[0] <= '9':
		return "number"
	case strings.HasPrefix(tok, "@/"):
		return "regex"
	case isWordByte(tok[0]):
		return "ident"
	}
	return tok
}

var corpusTexts = []string{"Hello, Lilith 123 abc\nfoo@bar.com 12.5 a,b,c\n<div>x</div> aabb 15\n", "ab a1 9"}

// corpusTokenPrograms returns the corpus programs as token sequences (comments
// dropped); programs whose single-blank rendering does not parse to the same tree
// as the original text are reported as harness errors.
func corpusTokenPrograms(t testing.TB) map[string][]string {
	out := map[string][]string{}
	for name, src := range loadCorpus(t) {
		var toks []string
		for _, tk := range crudeTokens(src) {
			if strings.HasPrefix(tk, "--") {
				continue
			}
			toks = append(toks, tk)
		}
		if len(toks) == 0 || len(toks) > 250 {
			continue
		}
		out[name] = toks
	}
	return out
}

func TestC15Gaps(t *testing.T) {
	seedNote(t)
	StartWatchdog("C15", 60*time.Second)
	st := NewStats("C15", "gaps", "exhaustive: for every corpus program (as token sequence) and a fixed set of generated programs, every gap (incl. before the first and after the last token) x separator in {space, newline, tab run, CRLF, line comment with / without leading blank, block comment with / without blanks, nothing}; oracle: accepted iff the single-blank layout is, DeepEqual syntax trees, identical Run results on two texts; coverage = distinct (previous token kind, next token kind, separator kind) triples, counted as the non-trivial cases")
	st.Exhaustive = true
	defer st.Write()
	nshards := envInt("VERIF_NSHARDS", 1)
	shardIdx := envInt("VERIF_SHARD_INDEX", 0)
	progs := corpusTokenPrograms(t)
	// programs the corpus does not have: empty bodies, an empty find before another command
	progs["extra_empty_find"] = []string{"find", "all"}
	progs["extra_empty_find_then_find"] = []string{"find", "all", "find", "all", "'a'"}
	// a replace command without a pattern: `3with` needs no blank, so the layouts with
	// and without one must agree (a find command without a pattern is accepted)
	progs["extra_empty_replace_amount"] = []string{"replace", "top", "3", "with", "'x'"}
	progs["extra_empty_replace_skip_take"] = []string{"replace", "skip", "1", "take", "2", "with", "'x'", "find", "all", "'a'"}
	progs["extra_empty_group"] = []string{"find", "all", "(", ")", "'a'", "{", "}", "=", "s"}
	progs["extra_three_way_or"] = []string{"find", "all", "'cat'", "or", "'dog'", "or", "'emu'", "or", "not", "'x'"}
	progs["extra_parenthesised_expressions"] = []string{"set", "f", "to", "transform", "set", "n", "to", "(", "matchLength", "+", "1", ")", "*", "(", "2", "-", "matchLength", ")", "return", "(", "match", "+", "n", ")", "end", "set", "p", "to", "pattern", "letter", "begin", "return", "(", "match", "==", "'a'", ")", "or", "not", "(", "match", "<", "'c'", ")", "end", "replace", "all", "p", "with", "f"}
	progs["extra_true_false"] = []string{"set", "f", "to", "function", "if", "true", "and", "not", "false", "then", "return", "'y'", "end", "return", "'n'", "end", "replace", "all", "'a'", "with", "f"}
	names := make([]string, 0, len(progs))
	for n := range progs {
		names = append(names, n)
	}
	sortStrings(names)
	// the original text of a corpus program and its token rendering must agree first
	corpus := loadCorpus(t)
	for i, name := range names {
		if i%nshards != shardIdx {
			continue
		}
		toks := progs[name]
		base := strings.Join(toks, " ")
		if _, ok := corpus[name]; !ok {
			corpus[name] = base
		}
		c0 := LayoutCase{Orig: corpus[name], Variant: base, Texts: corpusTexts}
		st.Eval()
		if sig, what := checkLayoutCase(c0); sig != "" {
			Fail(t, Failure{Property: "C15", Kind: "layout", What: "[" + name + " vs its single-blank token rendering] " + what, Case: c0, Sig: sig})
		}
		for gap := 0; gap <= len(toks); gap++ {
			for _, kind := range sepKinds {
				if kind == "nothing" && (gap == 0 || gap == len(toks)) {
					continue
				}
				seps := make([]string, len(toks)+1)
				for j := range seps {
					seps[j] = " "
				}
				seps[0], seps[len(toks)] = "", ""
				seps[gap] = sepOf(kind, []string{"c", "x )-", "( a (b) c )"}[(gap+len(toks))%3])
				variant := Layout(toks, seps)
				c := LayoutCase{Orig: base, Variant: variant, Texts: corpusTexts}
				st.Eval()
				SetInflight(func() string { return jsonStr(Failure{Property: "C15", Kind: "layout", Case: c}) })
				sig, what := checkLayoutCase(c)
				ClearInflight()
				if sig != "" {
					Fail(t, Failure{Property: "C15", Kind: "layout", What: fmt.Sprintf("[%s, gap %d, %s] %s", name, gap, kind, what), Case: c, Sig: sig})
				}
				prev, next := "", ""
				if gap > 0 {
					prev = toks[gap-1]
				}
				if gap < len(toks) {
					next = toks[gap]
				}
				key := tokenKind(prev) + "|" + tokenKind(next) + "|" + kind
				st.NonTrivial(key, func() any { return map[string]any{"triple": key, "program": name, "variant": variant} })
			}
		}
	}
}

func TestC15Random(t *testing.T) {
	seedNote(t)
	StartWatchdog("C15", 60*time.Second)
	st := NewStats("C15", "random", "generated programs of the full generator (and corpus programs): all gaps varied at once with random separators and comment bodies, keywords re-cased (upper, title, random); same oracle, with texts sampled from the program; non-trivial cases = distinct (previous token kind, next token kind, separator kind) triples exercised")
	defer st.Write()
	corp := corpusTokenPrograms(t)
	var corpNames []string
	for n := range corp {
		corpNames = append(corpNames, n)
	}
	sortStrings(corpNames)
	rapid.Check(t, func(t *rapid.T) {
		var toks []string
		texts := corpusTexts
		if rapid.IntRange(0, 3).Draw(t, "usecorpus") == 0 {
			toks = corp[rapid.SampledFrom(corpNames).Draw(t, "corpus")]
		} else {
			prog, globals, body := GenFullProgram(t, FullOpts{Wide: true, Transforms: true, MaxCmds: 2})
			toks = prog.Tokens()
			tx, _ := GenText(t, globals, body, true, 14)
			texts = []string{tx, "ab a1\n9"}
		}
		base := strings.Join(toks, " ")
		if loopProduct(base) > 4096 {
			return
		}
		recased := Recase(t, toks)
		seps := GenLayout(t, toks)
		variant := Layout(recased, seps)
		c := LayoutCase{Orig: base, Variant: variant, Texts: texts}
		st.Eval()
		SetInflight(func() string { return jsonStr(Failure{Property: "C15", Kind: "layout", Case: c}) })
		sig, what := checkLayoutCase(c)
		ClearInflight()
		if sig != "" {
			Fail(t, Failure{Property: "C15", Kind: "layout", What: what, Case: c, Sig: sig})
		}
		for gap := 0; gap <= len(toks); gap++ {
			prev, next := "", ""
			if gap > 0 {
				prev = toks[gap-1]
			}
			if gap < len(toks) {
				next = toks[gap]
			}
			kind := "other"
			switch {
			case seps[gap] == "":
				kind = "nothing"
			case strings.Contains(seps[gap], "--("):
				kind = "blockcomment"
			case strings.Contains(seps[gap], "--"):
				kind = "linecomment"
			default:
				kind = "blank"
			}
			st.NonTrivial(tokenKind(prev)+"|"+tokenKind(next)+"|"+kind, nil)
		}
	})
}

// longSep builds a separator of exactly n bytes (n >= 8) of the given kind; the
// comment text is made of words that would be accepted as program text (`or
// letter`), so a comment cut short changes the program rather than breaking it.
func longSep(kind string, n int) string {
	fill := func(k int) string {
		var b strings.Builder
		for b.Len() < k {
			b.WriteString("or letter ")
		}
		return b.String()[:k]
	}
	switch kind {
	case "blank":
		return strings.Repeat(" ", n)
	case "newlines":
		return strings.Repeat("\n", n)
	case "linecomment":
		return " --" + fill(n-4) + "\n"
	case "blockcomment":
		return "--(" + fill(n-6) + ")--"
	}
	panic("longSep " + kind)
}

var longSepKinds = []string{"blank", "newlines", "linecomment", "blockcomment"}

// TestC15Long: separators far longer than any reader buffer, and programs shifted
// so that a buffer boundary (4096 and its multiples, 64 KiB) falls on every byte of
// the program text.
func TestC15Long(t *testing.T) {
	seedNote(t)
	StartWatchdog("C15", 90*time.Second)
	st := NewStats("C15", "long", "corpus and extra programs (single-blank token rendering): (1) one gap replaced by a separator of 4090..4110, 5000, 8191..8200 or (thorough) 65535..65540 bytes (blanks, newlines, a line comment, a block comment whose text would parse as program text), (2) the program shifted by a leading separator so that byte offset 4096 / 8192 falls on every byte of the program; same oracle as the gap part; non-trivial cases = distinct (program, separator kind, length or shift)")
	st.Exhaustive = true
	defer st.Write()
	nshards := envInt("VERIF_NSHARDS", 1)
	shardIdx := envInt("VERIF_SHARD_INDEX", 0)
	thorough := tier() == "thorough"
	progs := corpusTokenPrograms(t)
	progs["extra_digits_or"] = []string{"find", "all", "at", "least", "1", "digit"}
	progs["extra_string"] = []string{"find", "all", "'abc def'", "\"x\\ty\"", "@/a+b/"}
	names := make([]string, 0, len(progs))
	for n := range progs {
		names = append(names, n)
	}
	sortStrings(names)
	texts := append([]string{"12ab 7 xyz9"}, corpusTexts...)
	check := func(name, what string, c LayoutCase, key string) {
		st.Eval()
		SetInflight(func() string { return jsonStr(Failure{Property: "C15", Kind: "layout", Case: c}) })
		sig, msg := checkLayoutCase(c)
		ClearInflight()
		if sig != "" {
			// keep the message short: the sources are thousands of bytes long
			Fail(t, Failure{Property: "C15", Kind: "layout", What: fmt.Sprintf("[%s, %s] %s", name, what, clipMsg(msg, 400)), Case: c, Sig: sig})
		}
		st.NonTrivial(key, func() any { return map[string]any{"program": name, "variant": what} })
	}
	for i, name := range names {
		if i%nshards != shardIdx {
			continue
		}
		toks := progs[name]
		base := strings.Join(toks, " ")
		if len(base) > 400 && !thorough {
			continue
		}
		// (1) one long separator in a gap
		lengths := []int{4090, 4095, 4096, 4097, 4098, 4099, 4100, 4103, 4110, 5000, 8191, 8192, 8193, 8196, 8200}
		if thorough {
			lengths = append(lengths, 65535, 65536, 65540)
		}
		gaps := []int{0, 1, len(toks) / 2, len(toks) - 1, len(toks)}
		for gi, gap := range gaps {
			if gap < 0 || gap > len(toks) {
				continue
			}
			for li, n := range lengths {
				kind := longSepKinds[(gi+li+i)%len(longSepKinds)]
				if !thorough && (gi+li+i)%3 != 0 {
					continue
				}
				seps := make([]string, len(toks)+1)
				for j := range seps {
					seps[j] = " "
				}
				seps[0], seps[len(toks)] = "", ""
				seps[gap] = longSep(kind, n)
				variant := Layout(toks, seps)
				check(name, fmt.Sprintf("gap %d <- %s of %d bytes", gap, kind, n), LayoutCase{Orig: base, Variant: variant, Texts: texts}, fmt.Sprintf("%s|gap%d|%s|%d", name, gap, kind, n))
			}
		}
		// (2) shift: a buffer boundary on every byte of the program
		stride := 1
		if !thorough && len(base) > 60 {
			stride = 1 + len(base)/60
		}
		for _, boundary := range []int{4096, 8192} {
			if boundary == 8192 && !thorough {
				continue
			}
			for off := 0; off <= len(base); off += stride {
				kind := longSepKinds[(off+i)%len(longSepKinds)]
				variant := longSep(kind, boundary-off) + base
				check(name, fmt.Sprintf("shifted by a %s of %d bytes", kind, boundary-off), LayoutCase{Orig: base, Variant: variant, Texts: texts}, fmt.Sprintf("%s|shift|%s|%d", name, kind, boundary-off))
			}
		}
	}
}

func clipMsg(s string, n int) string {
	if len(s) > n {
		return s[:n] + fmt.Sprintf("...(%d bytes)", len(s))
	}
	return s
}

func errLine(e error) string {
	if e == nil {
		return "accepted"
	}
	return "rejected: " + firstLine(e.Error())
}

// CLILayoutCase: one program in one layout given to the command-line tool.
type CLILayoutCase struct {
	Orig    string   `json:"orig"`    // single-blank layout
	Variant string   `json:"variant"` // the same tokens in another layout
	Text    string   `json:"text"`
	Flags   []string `json:"flags"`  // extra flags (e.g. -debug)
	ViaSrc  bool     `json:"viaSrc"` // the variant is given with -src (a file) instead of -com
}

// runCLIJSON runs `vore <flags> (-com src | -src file) -files input.txt -json-file out.json`
// in a scratch directory and returns the exit status and the JSON file's contents.
func runCLIJSON(cli, src, text string, flags []string, viaSrc bool) (exit int, doc string, msg string) {
	dir, err := os.MkdirTemp(scratchDir(), "c15cli-")
	if err != nil {
		panic(err)
	}
	defer os.RemoveAll(dir)
	os.WriteFile(filepath.Join(dir, "input.txt"), []byte(text), 0o644)
	args := append([]string{}, flags...)
	if viaSrc {
		os.WriteFile(filepath.Join(dir, "program.vore"), []byte(src), 0o644)
		args = append(args, "-src", "program.vore")
	} else {
		args = append(args, "-com", src)
	}
	args = append(args, "-files", "input.txt", "-json-file", "out.json", "-replace-mode", "NOTHING")
	cmd := exec.Command(cli, args...)
	cmd.Dir = dir
	var out bytes.Buffer
	cmd.Stdout, cmd.Stderr = &out, &out
	done := make(chan error, 1)
	if err := cmd.Start(); err != nil {
		panic(err)
	}
	go func() { done <- cmd.Wait() }()
	select {
	case err = <-done:
	case <-time.After(60 * time.Second):
		cmd.Process.Kill()
		return -1, "", "did not exit within 60 s"
	}
	if err != nil {
		if ee, ok := err.(*exec.ExitError); ok {
			exit = ee.ExitCode()
		} else {
			panic(err)
		}
	}
	b, _ := os.ReadFile(filepath.Join(dir, "out.json"))
	// file names in the document carry the scratch directory
	return exit, strings.ReplaceAll(string(b), dir, "<dir>"), clipMsg(out.String(), 300)
}

func checkCLILayoutCase(c CLILayoutCase) (sig, what string) {
	cli := os.Getenv("VERIF_CLI")
	if cli == "" {
		return "bad-replay-file", "VERIF_CLI is not set"
	}
	e1, d1, m1 := runCLIJSON(cli, c.Orig, c.Text, nil, false)
	e2, d2, m2 := runCLIJSON(cli, c.Variant, c.Text, c.Flags, c.ViaSrc)
	how := "-com"
	if c.ViaSrc {
		how = "-src"
	}
	desc := fmt.Sprintf("vore %s %s %q", strings.Join(c.Flags, " "), how, c.Variant)
	if e1 < 0 || e2 < 0 {
		return "cli-hang", desc + ": " + m1 + m2
	}
	if (e1 == 0) != (e2 == 0) {
		return "acceptance-differs", fmt.Sprintf("vore -com %q exits %d, %s exits %d (%s)", c.Orig, e1, desc, e2, m2)
	}
	if d1 != d2 {
		return "results-differ", fmt.Sprintf("vore -com %q writes %s, %s writes %s", c.Orig, clipMsg(d1, 300), desc, clipMsg(d2, 300))
	}
	return "", ""
}

func init() {
	registerReplay("clilayout", func(raw json.RawMessage) (string, string) {
		var c CLILayoutCase
		if err := json.Unmarshal(raw, &c); err != nil {
			return "bad-replay-file", err.Error()
		}
		return checkCLILayoutCase(c)
	})
}

// TestC15CLI: the same claim through the command-line tool: the program in another
// layout, given with -com or in a file with -src, with and without -debug, makes the
// tool write the same JSON document as the single-blank layout given with -com.
func TestC15CLI(t *testing.T) {
	seedNote(t)
	StartWatchdog("C15", 120*time.Second)
	st := NewStats("C15", "cli", "exhaustive over 8 programs x 7 layouts (newlines, tabs, CR LF, a line comment / an empty line comment / a block comment in every gap, upper-case keywords) x {-com, -src} x {no extra flag, -debug}: the JSON file the tool writes and its exit status equal those of the single-blank layout given with -com; every case non-trivial; distinct by (program, layout, flags)")
	st.Exhaustive = true
	defer st.Write()
	if os.Getenv("VERIF_CLI") == "" {
		t.Fatalf("HARNESS: VERIF_CLI is not set")
	}
	progs := [][]string{
		{"find", "all", "'alpha'", "'beta'"},
		{"find", "all", "at", "least", "1", "digit", "=", "n", "':'", "n"},
		{"replace", "all", "'a'", "with", "'<'", "value", "'>'"},
		{"set", "w", "to", "pattern", "at", "least", "2", "letter", "find", "top", "2", "w", "' '", "w"},
		{"find", "all", "line", "start", "(", "'alpha'", "or", "'be'", ")", "=", "h"},
		{"find", "skip", "1", "take", "2", "in", "'a'", "to", "'c'", ",", "'1'"},
		{"set", "f", "to", "transform", "return", "match", "+", "matchLength", "end", "replace", "all", "at", "least", "1", "digit", "with", "f"},
		{"find", "all", "'alpha'", "("}, // rejected in every layout
	}
	layouts := []struct{ name, sep string }{
		{"newline", "\n"}, {"tabs", "\t\t"}, {"crlf", "\r\n"}, {"linecomment", " -- note\n"}, {"emptylinecomment", " --\n"}, {"blockcomment", " --( note )-- "}, {"upper", " "},
	}
	text := "alphabeta alpha 12:12 7:8\nbeta the the cat cat 1 abc\nalphabeta\n"
	for pi, toks := range progs {
		orig := strings.Join(toks, " ")
		for _, l := range layouts {
			vt := toks
			if l.name == "upper" {
				vt = nil
				for _, tk := range toks {
					if keywords[tk] {
						tk = strings.ToUpper(tk)
					}
					vt = append(vt, tk)
				}
			}
			variant := strings.Join(vt, l.sep)
			for _, viaSrc := range []bool{false, true} {
				for _, flags := range [][]string{nil, {"-debug"}} {
					c := CLILayoutCase{Orig: orig, Variant: variant, Text: text, Flags: flags, ViaSrc: viaSrc}
					st.Eval()
					sig, what := checkCLILayoutCase(c)
					if sig == "bad-replay-file" {
						t.Fatalf("HARNESS: %s", what)
					}
					if sig != "" {
						Fail(t, Failure{Property: "C15", Kind: "clilayout", What: what, Case: c, Sig: sig})
					}
					st.NonTrivial(fmt.Sprint(pi, l.name, viaSrc, flags), func() any {
						return map[string]any{"program": orig, "layout": l.name, "via_src": viaSrc, "flags": flags}
					})
				}
			}
		}
	}
}
