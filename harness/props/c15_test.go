package props

import (
	"encoding/json"
	"fmt"
	"reflect"
	"strings"
	"testing"
	"time"

	"github.com/jmeaster30/vore/libvore/ast"
	"pgregory.net/rapid"
)

// LayoutCase: two layouts of the same token sequence.
type LayoutCase struct {
	Orig    string   `json:"orig"`
	Variant string   `json:"variant"`
	Texts   []string `json:"texts"`
}

const vmLimitLayout = 60_000

func parseSafe(src string) (tree *ast.Ast, err error, p *PanicInfo) {
	defer func() {
		if r := recover(); r != nil {
			p = capturePanic(r)
		}
	}()
	tree, err = ast.ParseReader(strings.NewReader(src))
	return
}

func checkLayoutCase(c LayoutCase) (sig, what string) {
	v1, e1, p1 := CompileSafe(c.Orig)
	v2, e2, p2 := CompileSafe(c.Variant)
	if p1 != nil {
		return p1.Sig(), "Compile panicked on " + c.Orig
	}
	if p2 != nil {
		return p2.Sig(), fmt.Sprintf("Compile panicked on the re-laid-out source %q: %s", c.Variant, p2.Sig())
	}
	if (e1 == nil) != (e2 == nil) {
		msg := "accepted"
		if e2 != nil {
			msg = "rejected: " + firstLine(e2.Error())
		}
		orig := "accepted"
		if e1 != nil {
			orig = "rejected: " + firstLine(e1.Error())
		}
		return "acceptance-differs", fmt.Sprintf("original %q is %s, but the re-laid-out source %q is %s", c.Orig, orig, c.Variant, msg)
	}
	if e1 != nil {
		return "", ""
	}
	t1, _, _ := parseSafe(c.Orig)
	t2, _, _ := parseSafe(c.Variant)
	if t1 == nil || t2 == nil || !reflect.DeepEqual(t1.Commands(), t2.Commands()) {
		return "ast-differs", fmt.Sprintf("original %q and re-laid-out %q parse to different trees", c.Orig, c.Variant)
	}
	for _, text := range c.Texts {
		r1 := RunSafe(v1, text, vmLimitLayout)
		r2 := RunSafe(v2, text, vmLimitLayout)
		if r1.OverBudget || r2.OverBudget || r1.Panic != nil {
			continue
		}
		if r2.Panic != nil {
			return r2.Panic.Sig(), fmt.Sprintf("re-laid-out %q panics on %q", c.Variant, text)
		}
		if !recsEqual(RecsOf(r1.Matches), RecsOf(r2.Matches)) {
			return "results-differ", fmt.Sprintf("original %q and re-laid-out %q give different results on %q", c.Orig, c.Variant, text)
		}
	}
	return "", ""
}

func init() {
	registerReplay("layout", func(raw json.RawMessage) (string, string) {
		var c LayoutCase
		if err := json.Unmarshal(raw, &c); err != nil {
			return "bad-replay-file", err.Error()
		}
		return checkLayoutCase(c)
	})
}

func tokenKind(tok string) string {
	if tok == "" {
		return "edge"
	}
	l := strings.ToLower(tok)
	switch {
	case keywords[l]:
		return "kw:" + l
	case tok[0] == '\'' || tok[0] == '"':
		return "string"
	case tok[0] >= '0' && tok[0] <= '9':
		return "number"
	case strings.HasPrefix(tok, "@/"):
		return "regex"
	case isWordByte(tok[0]):
		return "ident"
	}
	return tok
}

var corpusTexts = []string{"Hello, Lilith 123 abc\nfoo@bar.com 12.5 a,b,c\n<div>x</div> aabb 15\n", "ab a1 9"}

// corpusTokenPrograms returns the corpus programs as token sequences (comments
// dropped); programs whose single-blank rendering does not parse to the same tree
// as the original text are reported as harness errors.
func corpusTokenPrograms(t testing.TB) map[string][]string {
	out := map[string][]string{}
	for name, src := range loadCorpus(t) {
		var toks []string
		for _, tk := range crudeTokens(src) {
			if strings.HasPrefix(tk, "--") {
				continue
			}
			toks = append(toks, tk)
		}
		if len(toks) == 0 || len(toks) > 250 {
			continue
		}
		out[name] = toks
	}
	return out
}

func TestC15Gaps(t *testing.T) {
	seedNote(t)
	StartWatchdog("C15", 60*time.Second)
	st := NewStats("C15", "gaps", "exhaustive: for every corpus program (as token sequence) and a fixed set of generated programs, every gap (incl. before the first and after the last token) x separator in {space, newline, tab run, CRLF, line comment with / without leading blank, block comment with / without blanks, nothing}; oracle: accepted iff the single-blank layout is, DeepEqual syntax trees, identical Run results on two texts; coverage = distinct (previous token kind, next token kind, separator kind) triples, counted as the non-trivial cases")
	st.Exhaustive = true
	defer st.Write()
	nshards := envInt("VERIF_NSHARDS", 1)
	shardIdx := envInt("VERIF_SHARD_INDEX", 0)
	progs := corpusTokenPrograms(t)
	// programs the corpus does not have: empty bodies, an empty find before another command
	progs["extra_empty_find"] = []string{"find", "all"}
	progs["extra_empty_find_then_find"] = []string{"find", "all", "find", "all", "'a'"}
	progs["extra_empty_group"] = []string{"find", "all", "(", ")", "'a'", "{", "}", "=", "s"}
	progs["extra_three_way_or"] = []string{"find", "all", "'cat'", "or", "'dog'", "or", "'emu'", "or", "not", "'x'"}
	progs["extra_true_false"] = []string{"set", "f", "to", "function", "if", "true", "and", "not", "false", "then", "return", "'y'", "end", "return", "'n'", "end", "replace", "all", "'a'", "with", "f"}
	names := make([]string, 0, len(progs))
	for n := range progs {
		names = append(names, n)
	}
	sortStrings(names)
	// the original text of a corpus program and its token rendering must agree first
	corpus := loadCorpus(t)
	for i, name := range names {
		if i%nshards != shardIdx {
			continue
		}
		toks := progs[name]
		base := strings.Join(toks, " ")
		if _, ok := corpus[name]; !ok {
			corpus[name] = base
		}
		c0 := LayoutCase{Orig: corpus[name], Variant: base, Texts: corpusTexts}
		st.Eval()
		if sig, what := checkLayoutCase(c0); sig != "" {
			Fail(t, Failure{Property: "C15", Kind: "layout", What: "[" + name + " vs its single-blank token rendering] " + what, Case: c0, Sig: sig})
		}
		for gap := 0; gap <= len(toks); gap++ {
			for _, kind := range sepKinds {
				if kind == "nothing" && (gap == 0 || gap == len(toks)) {
					continue
				}
				seps := make([]string, len(toks)+1)
				for j := range seps {
					seps[j] = " "
				}
				seps[0], seps[len(toks)] = "", ""
				seps[gap] = sepOf(kind, []string{"c", "x )-", "( a (b) c )"}[(gap+len(toks))%3])
				variant := Layout(toks, seps)
				c := LayoutCase{Orig: base, Variant: variant, Texts: corpusTexts}
				st.Eval()
				SetInflight(func() string { return jsonStr(Failure{Property: "C15", Kind: "layout", Case: c}) })
				sig, what := checkLayoutCase(c)
				ClearInflight()
				if sig != "" {
					Fail(t, Failure{Property: "C15", Kind: "layout", What: fmt.Sprintf("[%s, gap %d, %s] %s", name, gap, kind, what), Case: c, Sig: sig})
				}
				prev, next := "", ""
				if gap > 0 {
					prev = toks[gap-1]
				}
				if gap < len(toks) {
					next = toks[gap]
				}
				key := tokenKind(prev) + "|" + tokenKind(next) + "|" + kind
				st.NonTrivial(key, func() any { return map[string]any{"triple": key, "program": name, "variant": variant} })
			}
		}
	}
}

func TestC15Random(t *testing.T) {
	seedNote(t)
	StartWatchdog("C15", 60*time.Second)
	st := NewStats("C15", "random", "generated programs of the full generator (and corpus programs): all gaps varied at once with random separators and comment bodies, keywords re-cased (upper, title, random); same oracle, with texts sampled from the program; non-trivial cases = distinct (previous token kind, next token kind, separator kind) triples exercised")
	defer st.Write()
	corp := corpusTokenPrograms(t)
	var corpNames []string
	for n := range corp {
		corpNames = append(corpNames, n)
	}
	sortStrings(corpNames)
	rapid.Check(t, func(t *rapid.T) {
		var toks []string
		texts := corpusTexts
		if rapid.IntRange(0, 3).Draw(t, "usecorpus") == 0 {
			toks = corp[rapid.SampledFrom(corpNames).Draw(t, "corpus")]
		} else {
			prog, globals, body := GenFullProgram(t, FullOpts{Wide: true, Transforms: true, MaxCmds: 2})
			toks = prog.Tokens()
			tx, _ := GenText(t, globals, body, true, 14)
			texts = []string{tx, "ab a1\n9"}
		}
		base := strings.Join(toks, " ")
		if loopProduct(base) > 4096 {
			return
		}
		recased := Recase(t, toks)
		seps := GenLayout(t, toks)
		variant := Layout(recased, seps)
		c := LayoutCase{Orig: base, Variant: variant, Texts: texts}
		st.Eval()
		SetInflight(func() string { return jsonStr(Failure{Property: "C15", Kind: "layout", Case: c}) })
		sig, what := checkLayoutCase(c)
		ClearInflight()
		if sig != "" {
			Fail(t, Failure{Property: "C15", Kind: "layout", What: what, Case: c, Sig: sig})
		}
		for gap := 0; gap <= len(toks); gap++ {
			prev, next := "", ""
			if gap > 0 {
				prev = toks[gap-1]
			}
			if gap < len(toks) {
				next = toks[gap]
			}
			kind := "other"
			switch {
			case seps[gap] == "":
				kind = "nothing"
			case strings.Contains(seps[gap], "--("):
				kind = "blockcomment"
			case strings.Contains(seps[gap], "--"):
				kind = "linecomment"
			default:
				kind = "blank"
			}
			st.NonTrivial(tokenKind(prev)+"|"+tokenKind(next)+"|"+kind, nil)
		}
	})
}
