package props

import (
	"encoding/json"
	"fmt"
	"strings"
	"testing"
	"time"

	"github.com/jmeaster30/vore/libvore/ast"
	"pgregory.net/rapid"
)

// LiteralCase: the source spelling of one string literal (with its quotes) and the
// bytes it is meant to denote (known to the harness because it built the spelling).
type LiteralCase struct {
	Literal string `json:"literal"`
	Bytes   string `json:"bytes"`
}

func astStringOf(src string) (string, bool, *PanicInfo, error) {
	tree, err, p := parseSafe(src)
	if p != nil || err != nil {
		return "", false, p, err
	}
	cmds := tree.Commands()
	if len(cmds) != 1 {
		return "", false, nil, nil
	}
	f, ok := cmds[0].(*ast.AstFind)
	if !ok || len(f.Body) != 1 {
		return "", false, nil, nil
	}
	pr, ok := f.Body[0].(*ast.AstPrimary)
	if !ok {
		return "", false, nil, nil
	}
	s, ok := pr.Literal.(*ast.AstString)
	if !ok {
		return "", false, nil, nil
	}
	return s.Value, true, nil, nil
}

func checkLiteralCase(c LiteralCase) (sig, what string) {
	src := "find all " + c.Literal
	val, ok, p, err := astStringOf(src)
	if p != nil {
		return p.Sig(), fmt.Sprintf("parsing %q panicked: %s", src, p.Sig())
	}
	if err != nil {
		return "literal-rejected", fmt.Sprintf("%q is rejected: %s", src, firstLine(err.Error()))
	}
	if !ok {
		return "literal-not-a-string", fmt.Sprintf("%q does not parse to a single string literal", src)
	}
	if val != c.Bytes {
		return "literal-value", fmt.Sprintf("%s denotes %q, but the lexer produced %q", c.Literal, c.Bytes, val)
	}
	v, cerr, cp := CompileSafe(src)
	if cp != nil || cerr != nil {
		return "literal-rejected", fmt.Sprintf("%q does not compile", src)
	}
	res := RunSafe(v, c.Bytes, 100_000)
	if res.Panic != nil {
		return res.Panic.Sig(), fmt.Sprintf("%q on %q panicked: %s", src, c.Bytes, res.Panic.Sig())
	}
	if len(res.Matches) != 1 || res.Matches[0].Offset.Start != 0 || res.Matches[0].Offset.End != len(c.Bytes) || res.Matches[0].Value != c.Bytes {
		return "literal-no-match", fmt.Sprintf("%q on the text %q it denotes: got %s, want exactly [0,%d)", src, c.Bytes, fmtSpans(SpansOf(res.Matches), false), len(c.Bytes))
	}
	// the same program read from a file (CompileFile, the CLI's -src) denotes the same bytes
	if len(c.Bytes) <= 64 {
		fv, ferr, fp := CompileFileSafe(src)
		if fp != nil || ferr != nil {
			return "literal-rejected", fmt.Sprintf("%q compiles from a string but not from a file (%v %v)", src, ferr, fp)
		}
		fr := RunSafe(fv, c.Bytes, 100_000)
		if fr.Panic != nil || len(fr.Matches) != 1 || fr.Matches[0].Value != c.Bytes {
			return "literal-file-differs", fmt.Sprintf("%q compiled from a file does not match the text %q it denotes (got %s)", src, c.Bytes, fmtSpans(SpansOf(fr.Matches), false))
		}
	}
	// near misses of the same length, and the text with its last byte dropped
	b := []byte(c.Bytes)
	for i := range b {
		if len(b) > 64 && i >= 2 && i < len(b)-8 {
			continue // long literals: both ends only
		}
		m := append([]byte{}, b...)
		m[i] ^= 1
		if m[i] == 0 {
			m[i] = 'z'
		}
		r := RunSafe(v, string(m), 100_000)
		if r.Panic != nil {
			return r.Panic.Sig(), fmt.Sprintf("%q on %q panicked", src, string(m))
		}
		if len(r.Matches) != 0 {
			return "literal-matches-other", fmt.Sprintf("%q (denoting %q) also matches %q", src, c.Bytes, string(m))
		}
	}
	r := RunSafe(v, c.Bytes[:len(c.Bytes)-1], 100_000)
	if r.Panic != nil {
		return r.Panic.Sig(), fmt.Sprintf("%q on the truncated text panicked", src)
	}
	if len(r.Matches) != 0 {
		return "literal-matches-other", fmt.Sprintf("%q (denoting %q) also matches the text without its last byte", src, c.Bytes)
	}
	return "", ""
}

func init() {
	registerReplay("literal", func(raw json.RawMessage) (string, string) {
		var c LiteralCase
		if err := json.Unmarshal(raw, &c); err != nil {
			return "bad-replay-file", err.Error()
		}
		return checkLiteralCase(c)
	})
}

var namedEscapes = map[byte]byte{'\n': 'n', '\t': 't', '\r': 'r', 7: 'a', 8: 'b', 12: 'f', 11: 'v'}

func isHexByte(c byte) bool {
	return c >= '0' && c <= '9' || c >= 'a' && c <= 'f' || c >= 'A' && c <= 'F'
}

// spellings returns every way to write byte c inside a literal quoted with q.
func spellings(c byte, q byte) map[string]string {
	out := map[string]string{
		"hex_lower": fmt.Sprintf("\\x%02x", c),
		"hex_upper": fmt.Sprintf("\\x%02X", c),
	}
	if c != q && c != '\\' {
		out["raw"] = string([]byte{c})
	}
	if n, ok := namedEscapes[c]; ok {
		out["named"] = "\\" + string([]byte{n})
	}
	if !strings.ContainsRune("ntrabfvx", rune(c)) {
		out["backslash_self"] = "\\" + string([]byte{c})
	}
	return out
}

func TestC16Table(t *testing.T) {
	seedNote(t)
	StartWatchdog("C16", 60*time.Second)
	st := NewStats("C16", "table", "exhaustive: every byte 0x01..0x7f in every spelling (and 0x00 as \\x00) (raw, \\xHH lower and upper case, named escape, backslash + itself) in both quote styles, alone and between two other characters; \\x followed by 0, 1 or 2 hex digits, then the end of the literal, a non-hex character, a blank or a further escape; oracle: the harness knows the bytes the spelling denotes: AstString.Value equals them, `find all <literal>` matches exactly that text and none of its one-byte mutations or its truncation; every case non-trivial, distinct by spelling")
	st.Exhaustive = true
	defer st.Write()
	run := func(lit, bytes, class string) {
		c := LiteralCase{Literal: lit, Bytes: bytes}
		st.Eval()
		SetInflight(func() string { return jsonStr(Failure{Property: "C16", Kind: "literal", Case: c}) })
		sig, what := checkLiteralCase(c)
		ClearInflight()
		if sig != "" {
			Fail(t, Failure{Property: "C16", Kind: "literal", What: what, Case: c, Sig: sig})
		}
		st.Count("class_" + class)
		st.NonTrivial(lit, func() any { return map[string]any{"literal": lit, "denotes": bytes, "class": class} })
	}
	for _, q := range []byte{'\'', '"'} {
		qs := string([]byte{q})
		for c := 1; c < 0x80; c++ {
			for kind, sp := range spellings(byte(c), q) {
				run(qs+sp+qs, string([]byte{byte(c)}), kind)
				run(qs+"a"+sp+"b"+qs, "a"+string([]byte{byte(c)})+"b", kind+"_embedded")
			}
		}
		// raw CR LF pairs inside a literal (a source saved with CR LF line ends)
		run(qs+"\r\n"+qs, "\r\n", "raw_crlf")
		run(qs+"a\r\nb\r\n"+qs, "a\r\nb\r\n", "raw_crlf")
		run(qs+"\\\r\n"+qs, "\r\n", "raw_crlf")
		run(qs+"\n\r"+qs, "\n\r", "raw_crlf")
		// the NUL byte can only be spelled with an escape (a raw NUL ends the source)
		run(qs+"\\x00"+qs, "\x00", "hex_nul")
		run(qs+"a\\x00b"+qs, "a\x00b", "hex_nul")
		run(qs+"\\x00\\x00\\x01"+qs, "\x00\x00\x01", "hex_nul")
		// \x corner cases
		followers := []struct{ src, bytes string }{{"", ""}, {"Z", "Z"}, {" ", " "}, {"\\n", "\n"}, {"\\\\", "\\"}, {"\\x41", "A"}, {"g", "g"}, {"\\x", "x"}, {"\\" + qs, qs}}
		for _, h := range []string{"", "0", "4", "a", "F", "9"} {
			for _, f := range followers {
				run(qs+"\\x"+h+f.src+qs, "x"+h+f.bytes, "x_incomplete")
				run(qs+"q\\x"+h+f.src+qs, "qx"+h+f.bytes, "x_incomplete")
			}
		}
		for c := 1; c < 0x80; c++ {
			if isHexByte(byte(c)) || byte(c) == q || c == '\\' {
				continue
			}
			run(qs+"\\x"+string([]byte{byte(c)})+qs, "x"+string([]byte{byte(c)}), "x_then_nonhex")
			run(qs+"\\x5"+string([]byte{byte(c)})+qs, "x5"+string([]byte{byte(c)}), "x_then_nonhex")
		}
	}
}

func TestC16Random(t *testing.T) {
	seedNote(t)
	StartWatchdog("C16", 60*time.Second)
	st := NewStats("C16", "random", "random ASCII strings of length 1..12 with a spelling drawn per byte (raw, hex, named, backslash+self, and incomplete \\x escapes followed by a non-hex spelling), both quote styles; same oracle; every case non-trivial, distinct by spelling")
	defer st.Write()
	rapid.Check(t, func(t *rapid.T) {
		q := rapid.SampledFrom([]byte{'\'', '"'}).Draw(t, "quote")
		n := rapid.IntRange(1, 12).Draw(t, "len")
		var src, bytes strings.Builder
		src.WriteByte(q)
		kinds := map[string]bool{}
		pendingNonHex := false // the previous unit was an incomplete \x: next source char must not be hex
		for i := 0; i < n; i++ {
			c := byte(rapid.IntRange(1, 0x7f).Draw(t, "byte"))
			if rapid.IntRange(0, 9).Draw(t, "bias") < 4 {
				c = rapid.SampledFrom([]byte("'\"\\xXnt 0aF\n\t-")).Draw(t, "special")
			}
			sp := spellings(c, q)
			names := make([]string, 0, len(sp))
			for k := range sp {
				names = append(names, k)
			}
			sortStrings(names)
			kind := rapid.SampledFrom(names).Draw(t, "spelling")
			s := sp[kind]
			if pendingNonHex && isHexByte(s[0]) {
				kind = "hex_lower"
				s = sp[kind]
			}
			src.WriteString(s)
			bytes.WriteByte(c)
			kinds[kind] = true
			pendingNonHex = false
			if rapid.IntRange(0, 7).Draw(t, "incomplete") == 0 {
				h := rapid.SampledFrom([]string{"", "", "3", "b", "E"}).Draw(t, "xh")
				src.WriteString("\\x" + h)
				bytes.WriteString("x" + h)
				pendingNonHex = true
				kinds["x_incomplete"] = true
			}
		}
		src.WriteByte(q)
		c := LiteralCase{Literal: src.String(), Bytes: bytes.String()}
		st.Eval()
		SetInflight(func() string { return jsonStr(Failure{Property: "C16", Kind: "literal", Case: c}) })
		sig, what := checkLiteralCase(c)
		ClearInflight()
		if sig != "" {
			Fail(t, Failure{Property: "C16", Kind: "literal", What: what, Case: c, Sig: sig})
		}
		for k := range kinds {
			st.Count("uses_" + k)
		}
		st.NonTrivial(c.Literal, func() any { return map[string]any{"literal": c.Literal, "denotes": c.Bytes} })
	})
}

// TestC16Long: literals longer than the lexer's read buffer, with every byte of an
// escape sequence placed in turn on source offset 4096 (thorough: also 8192).
func TestC16Long(t *testing.T) {
	seedNote(t)
	StartWatchdog("C16", 60*time.Second)
	st := NewStats("C16", "long", "exhaustive over (byte of a 13-byte sample, spelling, quote style, shift): a literal of about 4 kB whose padding is chosen so that each byte of the spelled unit (and of incomplete \\x escapes) falls on source offset 4096 (thorough: also 8192); same oracle, near misses at both ends of the text; every case non-trivial, distinct by (unit, quote, shift)")
	st.Exhaustive = true
	defer st.Write()
	boundaries := []int{4096}
	if tier() == "thorough" {
		boundaries = append(boundaries, 8192)
	}
	type unit struct{ src, bytes, class string }
	for _, q := range []byte{'\'', '"'} {
		qs := string([]byte{q})
		var units []unit
		for _, c := range []byte{'\n', '\t', ' ', 'a', 'F', '\\', '\'', '"', 0x01, 0x7f, 'x', '-', '0'} {
			sp := spellings(c, q)
			kinds := make([]string, 0, len(sp))
			for k := range sp {
				kinds = append(kinds, k)
			}
			sortStrings(kinds)
			for _, k := range kinds {
				units = append(units, unit{sp[k], string([]byte{c}), k})
			}
		}
		for _, h := range []string{"", "4", "F"} {
			units = append(units, unit{"\\x" + h + "Z", "x" + h + "Z", "x_incomplete"})
			units = append(units, unit{"\\x" + h + "\\n", "x" + h + "\n", "x_incomplete"})
		}
		units = append(units, unit{"\\x41\\x42", "AB", "hex_pair"})
		for ui, u := range units {
			if ui%envInt("VERIF_NSHARDS", 1) != envInt("VERIF_SHARD_INDEX", 0) {
				continue
			}
			for _, boundary := range boundaries {
				for j := -1; j <= len(u.src); j++ {
					pad := strings.Repeat("p", boundary-len("find all ")-1-j)
					c := LiteralCase{Literal: qs + pad + u.src + "b" + qs, Bytes: pad + u.bytes + "b"}
					st.Eval()
					SetInflight(func() string { return jsonStr(Failure{Property: "C16", Kind: "literal", Case: c}) })
					sig, what := checkLiteralCase(c)
					ClearInflight()
					if sig != "" {
						Fail(t, Failure{Property: "C16", Kind: "literal", What: fmt.Sprintf("[unit %s at source offset %d-%d] %s", u.src, boundary-j, boundary-j+len(u.src), clipMsg(what, 300)), Case: c, Sig: sig})
					}
					st.Count("class_" + u.class)
					key := fmt.Sprintf("%s|%s|%d|%d", qs, u.src, boundary, j)
					st.NonTrivial(key, func() any {
						return map[string]any{"unit": u.src, "quote": qs, "unit_starts_at_source_offset": boundary - j, "literal_bytes": len(c.Literal)}
					})
				}
			}
		}
	}
}
