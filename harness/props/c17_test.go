package props

import (
	"encoding/json"
	"fmt"
	"reflect"
	"strings"
	"testing"
	"time"
	"unicode/utf8"

	"github.com/jmeaster30/vore/libvore/engine"
	"pgregory.net/rapid"
)

func jsonSafe(fn func() string) (out string, p *PanicInfo) {
	defer func() {
		if r := recover(); r != nil {
			p = capturePanic(r)
		}
	}()
	out = fn()
	return
}

func allValidUTF8(v any) bool {
	switch x := v.(type) {
	case string:
		return utf8.ValidString(x)
	case map[string]any:
		for k, e := range x {
			if !utf8.ValidString(k) || !allValidUTF8(e) {
				return false
			}
		}
	}
	return true
}

func rangeObj(v any, start, end int) bool {
	m, ok := v.(map[string]any)
	if !ok || len(m) != 2 {
		return false
	}
	s, ok1 := m["start"].(float64)
	e, ok2 := m["end"].(float64)
	return ok1 && ok2 && int(s) == start && int(e) == end
}

// checkJSONOf verifies both renderings of ms against the in-memory matches.
func checkJSONOf(ms engine.Matches) (sig, what string, escaped bool) {
	compact, p := jsonSafe(ms.Json)
	if p != nil {
		return p.Sig(), "Matches.Json() panicked: " + p.Sig(), false
	}
	formatted, p := jsonSafe(ms.FormattedJson)
	if p != nil {
		return p.Sig(), "Matches.FormattedJson() panicked: " + p.Sig(), false
	}
	var d1, d2 any
	if err := json.Unmarshal([]byte(compact), &d1); err != nil {
		return "json-invalid", fmt.Sprintf("Json() is not valid JSON (%v): %.200s", err, compact), false
	}
	if err := json.Unmarshal([]byte(formatted), &d2); err != nil {
		return "json-invalid", fmt.Sprintf("FormattedJson() is not valid JSON (%v): %.200s", err, formatted), false
	}
	if !reflect.DeepEqual(d1, d2) {
		return "json-renderings-differ", fmt.Sprintf("compact and formatted renderings decode to different documents: %.200s vs %.200s", compact, formatted), false
	}
	list, ok := d1.([]any)
	if !ok {
		return "json-not-a-list", fmt.Sprintf("the document is not a list: %.100s", compact), false
	}
	if len(list) != len(ms) {
		return "json-length", fmt.Sprintf("%d objects for %d matches", len(list), len(ms)), false
	}
	for i, m := range ms {
		obj, ok := list[i].(map[string]any)
		if !ok {
			return "json-not-an-object", fmt.Sprintf("element %d is not an object", i), false
		}
		wantKeys := 8
		if m.Replacement.HasValue() {
			wantKeys = 9
		}
		for _, k := range []string{"filename", "matchNumber", "offset", "line", "column", "value", "variables"} {
			if _, ok := obj[k]; !ok {
				return "json-key-missing", fmt.Sprintf("match %d: key %q missing in %v", i, k, obj), false
			}
		}
		_, hasRepl := obj["replacement"]
		if hasRepl != m.Replacement.HasValue() {
			return "json-replacement-key", fmt.Sprintf("match %d: replacement key present=%v, in-memory has replacement=%v", i, hasRepl, m.Replacement.HasValue()), false
		}
		if len(obj) != wantKeys-1 && len(obj) != wantKeys {
			return "json-extra-keys", fmt.Sprintf("match %d: unexpected key set %v", i, obj), false
		}
		if len(obj) != 7+map[bool]int{true: 1, false: 0}[hasRepl] {
			return "json-extra-keys", fmt.Sprintf("match %d: unexpected key set %v", i, obj), false
		}
		if n, ok := obj["matchNumber"].(float64); !ok || int(n) != m.MatchNumber {
			return "json-field", fmt.Sprintf("match %d: matchNumber %v != %d", i, obj["matchNumber"], m.MatchNumber), false
		}
		if !rangeObj(obj["offset"], m.Offset.Start, m.Offset.End) || !rangeObj(obj["line"], m.Line.Start, m.Line.End) || !rangeObj(obj["column"], m.Column.Start, m.Column.End) {
			return "json-field", fmt.Sprintf("match %d: offset/line/column %v %v %v differ from the in-memory match %+v %+v %+v", i, obj["offset"], obj["line"], obj["column"], m.Offset, m.Line, m.Column), false
		}
		strField := func(key, want string) (string, string) {
			got, ok := obj[key].(string)
			if !ok {
				return "json-field", fmt.Sprintf("match %d: %s is not a string: %v", i, key, obj[key])
			}
			if utf8.ValidString(want) && got != want {
				return "json-field", fmt.Sprintf("match %d: %s %q != in-memory %q", i, key, got, want)
			}
			return "", ""
		}
		if s, w := strField("filename", m.Filename); s != "" {
			return s, w, false
		}
		if s, w := strField("value", m.Value); s != "" {
			return s, w, false
		}
		if hasRepl {
			if s, w := strField("replacement", m.Replacement.GetValue()); s != "" {
				return s, w, false
			}
		}
		var wantVars any = map[string]any{}
		if m.Variables.Value != nil {
			wantVars = m.Variables.ToGo()
		}
		gotVars, ok := obj["variables"].(map[string]any)
		if !ok {
			return "json-field", fmt.Sprintf("match %d: variables is not an object: %v", i, obj["variables"]), false
		}
		if allValidUTF8(wantVars) && !reflect.DeepEqual(gotVars, wantVars) {
			return "json-field", fmt.Sprintf("match %d: variables %v != in-memory %v", i, gotVars, wantVars), false
		}
		if strings.ContainsAny(m.Value, "\"\\<>&\n\t\x01\x7f") || !isASCII(m.Value) {
			escaped = true
		}
	}
	return "", "", escaped
}

func checkJSONCase(c RunCase) (sig, what string, discard bool, n int, escaped bool, nested bool) {
	v, err, p := CompileSafe(c.Src)
	if p != nil {
		return p.Sig(), "Compile panicked", false, 0, false, false
	}
	if err != nil {
		return "compile-error", firstLine(err.Error()), false, 0, false, false
	}
	res := RunSafe(v, c.Text, 100_000)
	if res.OverBudget {
		return "", "", true, 0, false, false
	}
	if res.Panic != nil {
		// crashes of Run are C09's business
		return "", "", true, 0, false, false
	}
	sig, what, escaped = checkJSONOf(res.Matches)
	if sig != "" {
		what = fmt.Sprintf("%s on %q: %s", c.Src, c.Text, what)
	}
	for _, m := range res.Matches {
		if m.Variables.Value != nil {
			for _, x := range m.Variables.Value {
				if _, isMap := x.ToGo().(map[string]any); isMap {
					nested = true
				}
			}
		}
	}
	return sig, what, false, len(res.Matches), escaped, nested
}

func init() {
	registerReplay("json", func(raw json.RawMessage) (string, string) {
		var c RunCase
		if err := json.Unmarshal(raw, &c); err != nil {
			return "bad-replay-file", err.Error()
		}
		sig, what, _, _, _, _ := checkJSONCase(c)
		return sig, what
	})
}

var jsonTextPieces = []string{"a", "b", "ab", " ", "\"", "\\", "\n", "\t", "\x01", "<", ">", "&", "é", "日本", "\xff", "\xc3", "\u2028", "'", "/", "0", "\x7f", "\r\n", "\\u003c", "\\u0026b\\u003e", "\\n", "\\\""}
var jsonBodies = []string{
	"at least 1 any", "(at least 1 not ' ') = w", "at least 1 (any = c) named L", "any = first (at least 0 not ' ') = rest",
	"at least 1 ((not ' ') = ch ' ' or file end) named words", "in '\"', '\\\\', '<', '&' (maybe any) = next", "at most 3 any = x", "'zzz'",
}

func TestC17(t *testing.T) {
	seedNote(t)
	StartWatchdog("C17", 60*time.Second)
	st := NewStats("C17", "json", "find and replace programs (hand-made bodies with flat captures and named loops, and programs of the wide generator) x texts over quotes, backslashes, control characters, < > &, valid non-ASCII UTF-8, U+2028 and invalid bytes; Json() and FormattedJson() must return, decode with encoding/json, be equal as documents and carry exactly the in-memory fields (exact strings where the in-memory string is valid UTF-8); non-trivial = >=1 match whose value needs escaping or is non-ASCII; distinct by (source,text)")
	defer st.Write()
	rapid.Check(t, func(t *rapid.T) {
		var src string
		var text string
		if rapid.IntRange(0, 2).Draw(t, "handmade") != 0 {
			body := rapid.SampledFrom(jsonBodies).Draw(t, "body")
			if rapid.Bool().Draw(t, "replace") {
				switch rapid.IntRange(0, 3).Draw(t, "withkind") {
				case 0:
					src = "replace all " + body + " with ''" // the empty replacement is still a replacement
				case 1:
					src = "replace all " + body + " with nosuch first" // only names: may contribute nothing
				default:
					src = "replace all " + body + " with '[' value ']' " + Quote(rapid.SampledFrom(jsonTextPieces).Draw(t, "wq"))
				}
			} else {
				src = "find " + strings.Join(genAmount(t), " ") + " " + body
			}
			if rapid.IntRange(0, 3).Draw(t, "second") == 0 {
				// a second command: the result list then mixes matches with and without a replacement
				body2 := rapid.SampledFrom(jsonBodies).Draw(t, "body2")
				if rapid.Bool().Draw(t, "second_replace") {
					src += " replace all " + body2 + " with '<' value '>'"
				} else {
					src += " find all " + body2
				}
			}
			text = strings.Join(rapid.SliceOfN(rapid.SampledFrom(jsonTextPieces), 0, 10).Draw(t, "jtext"), "")
		} else {
			s, tx, _ := genWideProgram(t, true)
			src = s
			text = tx + strings.Join(rapid.SliceOfN(rapid.SampledFrom(jsonTextPieces), 0, 4).Draw(t, "jtail"), "")
		}
		c := RunCase{Src: src, Text: text}
		st.Eval()
		SetInflight(func() string { return jsonStr(Failure{Property: "C17", Kind: "json", Case: c}) })
		sig, what, discard, n, escaped, nested := checkJSONCase(c)
		ClearInflight()
		if discard {
			st.Count("discarded")
			return
		}
		if sig == "compile-error" {
			t.Fatalf("HARNESS: %s: %s", src, what)
		}
		if sig != "" {
			Fail(t, Failure{Property: "C17", Kind: "json", What: what, Case: c, Sig: sig})
		}
		switch {
		case n == 0:
			st.Count("matches_0")
		case n == 1:
			st.Count("matches_1")
		default:
			st.Count("matches_many")
		}
		if nested {
			st.Count("nested_variables")
		}
		if strings.HasPrefix(src, "replace") {
			st.Count("replace_cmd")
			if strings.Contains(src, "with ''") || strings.Contains(src, "with nosuch") {
				st.Count("possibly_empty_replacement")
			}
		}
		if !utf8.ValidString(text) {
			st.Count("invalid_utf8_text")
		}
		if n >= 1 && escaped {
			st.NonTrivial(src+"\x00"+text, func() any { return map[string]any{"src": src, "text": text, "matches": n} })
		}
	})
}
