package props

import (
	"bytes"
	"encoding/json"
	"fmt"
	"io"
	"os"
	"os/exec"
	"path/filepath"
	"reflect"
	"sort"
	"strings"
	"testing"
	"time"

	"github.com/jmeaster30/vore/libvore"
	"github.com/jmeaster30/vore/libvore/engine"
	"pgregory.net/rapid"
)

// CLICase: one invocation of the vore binary in a scratch directory.
type CLICase struct {
	Program   string `json:"program"`   // "find" | "replace" | "failing" | "missingsrc" (-src names no file)
	ViaSrc    bool   `json:"via_src"`   // -src file instead of -com
	JSON      bool   `json:"json"`      // -json
	FJSON     bool   `json:"fjson"`     // -formatted-json
	JSONFile  bool   `json:"json_file"` // -json-file out.json
	FJSONFile bool   `json:"fjson_file"`
	Mode      string `json:"mode"` // "" (absent) | NEW | NOTHING | OVERWRITE | BOGUS
	NoOutput  bool   `json:"no_output"`
	Files     string `json:"files"`      // "one" | "glob" | "subdir" | "dirname" | "nomatch" | "overlap" | "absent"
	Dir       int    `json:"dir"`        // which directory fixture
	StaleSink bool   `json:"stale_sink"` // out.json / outf.json exist beforehand, longer than any result
}

var cliPrograms = map[string]string{
	"find":    "find all 'ab' (maybe any) = d",
	"replace": "replace all 'ab' with '<' value '>'",
	// a replace command that is not the first command of its program
	"setreplace":  "set p to pattern 'ab' maybe digit replace all p with '[' value ']'",
	"findreplace": "find all 'no such text' find top 1 'a' replace all 'ab' with 'Y'",
	"failing": "find all (",
}

var cliFixtures = []map[string]string{
	{"a.txt": "ab 12 ab3\nxyz ab\n", "b.txt": "12 ab% 50%d ab%s", "c.md": "ab ab", "ln.txt": "-> sub/x.txt", "empty.txt": "", "sub/x.txt": "ab in sub ab7", "sub/y.md": "ab"},
	{"a.txt": "no match here\n", "b.txt": "\"quoted\" ab \\ <é>\nab\x1b[0m ab\x01 ab\x7f\tab\n", "notes.md": "ab", "sub/x.txt": "nothing", "sub/deep/z.txt": "ab"},
}

func (c CLICase) args() []string {
	var a []string
	if c.Program == "missingsrc" {
		a = append(a, "-src", "no-such-program.vore")
	} else if c.ViaSrc {
		a = append(a, "-src", "prog.vore")
	} else {
		a = append(a, "-com", cliPrograms[c.Program])
	}
	switch c.Files {
	case "one":
		a = append(a, "-files", "b.txt")
	case "glob":
		a = append(a, "-files", "*.txt")
	case "subdir":
		a = append(a, "-files", "sub/*.txt")
	case "dirname":
		a = append(a, "-files", "sub") // a directory is not a file: nothing to search
	case "nomatch":
		a = append(a, "-files", "*.nothing")
	case "overlap":
		a = append(a, "-files", "b.t*txt") // prefix and suffix would have to overlap in b.txt: selects nothing
	}
	if c.JSON {
		a = append(a, "-json")
	}
	if c.FJSON {
		a = append(a, "-formatted-json")
	}
	if c.JSONFile {
		a = append(a, "-json-file", "out.json")
	}
	if c.FJSONFile {
		a = append(a, "-formatted-json-file", "outf.json")
	}
	switch c.Mode {
	case "":
	case "BOGUS":
		a = append(a, "-replace-mode", "SOMETIMES")
	default:
		a = append(a, "-replace-mode", c.Mode)
	}
	if c.NoOutput {
		a = append(a, "-no-output")
	}
	return a
}

func (c CLICase) invalid() bool {
	return c.Files == "absent" || (c.JSON && c.FJSON) || c.Mode == "BOGUS" || c.Program == "failing" || c.Program == "missingsrc"
}

func decodeOne(data []byte) (any, error) {
	dec := json.NewDecoder(bytes.NewReader(data))
	var v any
	if err := dec.Decode(&v); err != nil {
		return nil, err
	}
	// exactly one document: nothing but white space may follow
	var extra any
	if err := dec.Decode(&extra); err != io.EOF {
		return nil, fmt.Errorf("trailing data after the JSON document (%v)", err)
	}
	return v, nil
}

func checkCLICase(c CLICase) (sig, what string, nmatch int) {
	cli := os.Getenv("VERIF_CLI")
	if cli == "" {
		return "bad-replay-file", "VERIF_CLI is not set", 0
	}
	dir, err := os.MkdirTemp(scratchDir(), "c18-")
	if err != nil {
		panic(err)
	}
	defer os.RemoveAll(dir)
	if real, err := filepath.EvalSymlinks(dir); err == nil {
		dir = real
	}
	for n, data := range cliFixtures[c.Dir%len(cliFixtures)] {
		os.MkdirAll(filepath.Dir(filepath.Join(dir, n)), 0o755)
		if strings.HasPrefix(data, "-> ") {
			continue
		}
		os.WriteFile(filepath.Join(dir, n), []byte(data), 0o644)
	}
	for n, data := range cliFixtures[c.Dir%len(cliFixtures)] {
		if strings.HasPrefix(data, "-> ") {
			os.Symlink(data[3:], filepath.Join(dir, n)) // a symbolic link to a file is a file
		}
	}
	os.WriteFile(filepath.Join(dir, "prog.vore"), []byte(cliPrograms[c.Program]), 0o644)
	if c.StaleSink {
		old := "[" + strings.Repeat(`{"stale":"result of an earlier, longer run"},`, 200) + "0]\n"
		os.WriteFile(filepath.Join(dir, "out.json"), []byte(old), 0o644)
		os.WriteFile(filepath.Join(dir, "outf.json"), []byte(old), 0o644)
	}
	before := snapshotDir(dir)

	// the library's answer on the same directory (NOTHING changes no file)
	var want engine.Matches
	var fileList []string
	if !c.invalid() {
		var lp *PanicInfo
		var lerr error
		func() {
			defer func() {
				if r := recover(); r != nil {
					lp = capturePanic(r)
				}
			}()
			pattern := map[string]string{"one": "b.txt", "glob": "*.txt", "subdir": "sub/*.txt", "dirname": "sub", "nomatch": "*.nothing", "overlap": "b.t*txt"}[c.Files]
			// the files the pattern describes, by the harness's reference glob (C20's
			// oracle), in the library's order (directory order = sorted by name)
			fileList = expectedFiles(dir, strings.Split(pattern, "/"))
			sort.Strings(fileList)
			var v *libvore.Vore
			v, lerr = libvore.Compile(cliPrograms[c.Program])
			if lerr == nil && len(fileList) > 0 {
				setStepLimit(0) // no limit; also clears a stale watchdog abort flag
				want = v.RunFiles(fileList, engine.NOTHING, false)
			}
		}()
		if lp != nil {
			return lp.Sig(), "the library panicked while computing the expected result: " + lp.Sig(), 0
		}
		if lerr != nil {
			return "fixture-rejected", "the fixture program " + cliPrograms[c.Program] + " is rejected by the library: " + firstLine(lerr.Error()), 0
		}
	}
	cmd := exec.Command(cli, c.args()...)
	cmd.Dir = dir
	var stdout, stderr bytes.Buffer
	cmd.Stdout, cmd.Stderr = &stdout, &stderr
	done := make(chan error, 1)
	if err := cmd.Start(); err != nil {
		return "bad-replay-file", "cannot start the CLI: " + err.Error(), 0
	}
	go func() { done <- cmd.Wait() }()
	var runErr error
	select {
	case runErr = <-done:
	case <-time.After(60 * time.Second):
		cmd.Process.Kill()
		return "cli-hang", fmt.Sprintf("vore %v did not exit within 60 s", c.args()), 0
	}
	exit := 0
	if runErr != nil {
		if ee, ok := runErr.(*exec.ExitError); ok {
			exit = ee.ExitCode()
		} else {
			return "bad-replay-file", runErr.Error(), 0
		}
	}
	after := snapshotDir(dir)
	desc := fmt.Sprintf("vore %s", strings.Join(c.args(), " "))
	if c.invalid() {
		if exit == 0 {
			return "invalid-exit-zero", fmt.Sprintf("%s: an invalid invocation exited 0 (stdout %.200q)", desc, stdout.String()), 0
		}
		if strings.TrimSpace(stdout.String()+stderr.String()) == "" {
			return "invalid-no-message", desc + ": exited non-zero without any message", 0
		}
		if d := diffSnap(before, after, nil); d != "" {
			return "invalid-modified-files", desc + ": an invalid invocation must modify no file, but " + d, 0
		}
		return "", "", 0
	}
	if exit != 0 {
		return "exit-nonzero", fmt.Sprintf("%s: a documented invocation exited %d; stderr: %.400q", desc, exit, stderr.String()), 0
	}
	wantDoc := func() (d any, p *PanicInfo) {
		defer func() {
			if r := recover(); r != nil {
				p = capturePanic(r)
			}
		}()
		json.Unmarshal([]byte(want.Json()), &d)
		return d, nil
	}
	if len(want) > 0 && !c.NoOutput && (c.JSON || c.FJSON || c.JSONFile || c.FJSONFile) {
		wd, jp := wantDoc()
		if jp != nil {
			return jp.Sig(), "the library panicked while rendering the expected JSON: " + jp.Sig(), len(want)
		}
		if c.JSON || c.FJSON {
			got, err := decodeOne(stdout.Bytes())
			if err != nil {
				return "stdout-not-json", fmt.Sprintf("%s: standard output is not exactly one JSON document (%v): %.300q", desc, err, stdout.String()), len(want)
			}
			if !reflect.DeepEqual(got, wd) {
				return "stdout-json-differs", fmt.Sprintf("%s: the JSON on standard output differs from the library's result", desc), len(want)
			}
		}
		for _, jf := range []struct {
			on   bool
			name string
		}{{c.JSONFile, "out.json"}, {c.FJSONFile, "outf.json"}} {
			if !jf.on {
				continue
			}
			data, ok := after[jf.name]
			if !ok {
				return "json-file-missing", fmt.Sprintf("%s: %s was not written", desc, jf.name), len(want)
			}
			got, err := decodeOne([]byte(data))
			if err != nil {
				return "json-file-invalid", fmt.Sprintf("%s: %s is not exactly one JSON document (%v): %.200q", desc, jf.name, err, data), len(want)
			}
			if !reflect.DeepEqual(got, wd) {
				return "json-file-differs", fmt.Sprintf("%s: %s differs from the library's result", desc, jf.name), len(want)
			}
			if fi, err := os.Stat(filepath.Join(dir, jf.name)); err == nil && fi.Mode().Perm()&0o400 == 0 {
				return "json-file-unreadable", fmt.Sprintf("%s: %s was created with mode %v", desc, jf.name, fi.Mode()), len(want)
			}
		}
	}
	// file effects
	allowed := map[string]bool{"out.json": true, "outf.json": true}
	mode := c.Mode
	if mode == "" {
		mode = "NEW"
	}
	if strings.Contains(cliPrograms[c.Program], "replace ") && mode != "NOTHING" {
		for _, f := range fileList {
			name, _ := filepath.Rel(dir, filepath.Clean(f))
			content := before[name]
			var b strings.Builder
			last := 0
			for _, m := range want {
				if m.Filename != f || !m.Replacement.HasValue() {
					continue // another file, or a match of a find command of the program
				}
				b.WriteString(content[last:m.Offset.Start])
				b.WriteString(m.Replacement.GetValueOrDefault(""))
				last = m.Offset.End
			}
			b.WriteString(content[last:])
			target := name
			if mode == "NEW" {
				target = name + ".vored"
			}
			allowed[target] = true
			if got, ok := after[target]; !ok || got != b.String() {
				return "replace-mode-effect", fmt.Sprintf("%s: %s holds %s, the %s-mode result is %s", desc, target, clip(got), mode, clip(b.String())), len(want)
			}
		}
	}
	// a symbolic link and the file it points to are two names of one content: when
	// one of them may change, so may the other
	for n, data := range cliFixtures[c.Dir%len(cliFixtures)] {
		if strings.HasPrefix(data, "-> ") {
			t := filepath.Clean(filepath.Join(filepath.Dir(n), data[3:]))
			if allowed[n] || allowed[t] {
				allowed[n], allowed[t] = true, true
			}
		}
	}
	if d := diffSnap(before, after, allowed); d != "" {
		return "unexpected-file-effect", desc + ": " + d, len(want)
	}
	return "", "", len(want)
}

func init() {
	registerReplay("cli", func(raw json.RawMessage) (string, string) {
		var c CLICase
		if err := json.Unmarshal(raw, &c); err != nil {
			return "bad-replay-file", err.Error()
		}
		sig, what, _ := checkCLICase(c)
		return sig, what
	})
}

func allCLICases() []CLICase {
	var out []CLICase
	for _, prog := range []string{"find", "replace", "setreplace", "findreplace", "failing", "missingsrc"} {
		for _, src := range []bool{false, true} {
			for jm := 0; jm < 4; jm++ {
				for _, jf := range []bool{false, true} {
					for _, fjf := range []bool{false, true} {
						for _, mode := range []string{"", "NEW", "NOTHING", "OVERWRITE", "BOGUS"} {
							for _, no := range []bool{false, true} {
								for _, fl := range []string{"one", "glob", "subdir", "dirname", "nomatch", "overlap", "absent"} {
									out = append(out, CLICase{Program: prog, ViaSrc: src, JSON: jm&1 != 0, FJSON: jm&2 != 0, JSONFile: jf, FJSONFile: fjf, Mode: mode, NoOutput: no, Files: fl})
								}
							}
						}
					}
				}
			}
		}
	}
	return out
}

func runCLICase(t fataler, st *Stats, c CLICase) {
	st.Eval()
	sig, what, n := checkCLICase(c)
	if sig == "bad-replay-file" {
		t.Fatalf("HARNESS: %s", what)
	}
	if sig != "" {
		Fail(t, Failure{Property: "C18", Kind: "cli", What: what, Case: c, Sig: sig})
	}
	if c.StaleSink {
		st.Count("stale_sinks_present")
	}
	if c.invalid() {
		st.Count("invalid_invocations")
	} else {
		st.Count("documented_invocations")
	}
	if n >= 1 && !c.NoOutput && (c.JSON || c.FJSON || c.JSONFile || c.FJSONFile) {
		st.NonTrivial(jsonStr(c), func() any { return map[string]any{"args": c.args(), "matches": n} })
	}
}

func TestC18Sample(t *testing.T) {
	seedNote(t)
	StartWatchdog("C18", 120*time.Second)
	st := NewStats("C18", "sample", "random sample of the cross product {find, replace, definition + replace, find + find + replace, non-compiling, -src naming no file} x {-com,-src} x {none,-json,-formatted-json,both} x -json-file x -formatted-json-file x -replace-mode {absent,NEW,NOTHING,OVERWRITE,bogus} x -no-output x {one file, glob, glob in a sub-directory, a directory name, glob matching nothing, glob whose literal pieces overlap in a file name, -files absent} over two directory fixtures, run as subprocesses of the freshly built binary; oracle: the library's result on the same directory; non-trivial = >=1 match and at least one JSON sink; distinct by flag vector and fixture")
	defer st.Write()
	all := allCLICases()
	// a quarter of the sample comes from the vectors where several commands with matches
	// meet several files and a JSON sink (the order of the document is then at stake)
	var multi []int
	for i, c := range all {
		if c.Program == "findreplace" && (c.Files == "glob" || c.Files == "dirname" || c.Files == "overlap" || c.Files == "subdir") && (c.JSON != c.FJSON || c.JSONFile || c.FJSONFile) && !(c.JSON && c.FJSON) && c.Mode != "BOGUS" {
			multi = append(multi, i)
		}
	}
	if len(multi) == 0 {
		t.Fatalf("HARNESS: no multi-command multi-file vectors")
	}
	rapid.Check(t, func(t *rapid.T) {
		c := all[rapid.IntRange(0, len(all)-1).Draw(t, "vector")]
		if rapid.IntRange(0, 3).Draw(t, "multi") == 0 {
			c = all[multi[rapid.IntRange(0, len(multi)-1).Draw(t, "multivector")]]
			st.Count("several_commands_several_files")
		}
		c.Dir = rapid.IntRange(0, len(cliFixtures)-1).Draw(t, "dir")
		c.StaleSink = rapid.IntRange(0, 2).Draw(t, "stale") == 0
		runCLICase(t, st, c)
	})
}

func TestC18All(t *testing.T) {
	seedNote(t)
	StartWatchdog("C18", 120*time.Second)
	st := NewStats("C18", "all", "exhaustive: all 13440 flag vectors of the cross product x 2 directory fixtures; same oracle")
	st.Exhaustive = true
	defer st.Write()
	nshards := envInt("VERIF_NSHARDS", 1)
	shardIdx := envInt("VERIF_SHARD_INDEX", 0)
	for i, c := range allCLICases() {
		if i%nshards != shardIdx {
			continue
		}
		for d := range cliFixtures {
			c.Dir = d
			c.StaleSink = (i+d)%2 == 0
			runCLICase(t, st, c)
		}
	}
}
