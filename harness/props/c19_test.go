package props

import (
	"encoding/json"
	"fmt"
	"os"
	"path/filepath"
	"runtime"
	"strings"
	"sync"
	"testing"
	"time"

	"github.com/jmeaster30/vore/libvore"
	"pgregory.net/rapid"
)

// ConcOp: one call made by a goroutine.
type ConcOp struct {
	Kind string `json:"kind"` // "compile" | "run"
	Src  int    `json:"src"`  // index into Sources (compile: compile it, then run it once on Text)
	Text int    `json:"text"`
}

// ConcCase: a job set: Jobs[g] is the sequence of calls of goroutine g. "run" ops
// use the shared programs compiled up front from Sources.
type ConcCase struct {
	Sources []string   `json:"sources"`
	Texts   []string   `json:"texts"`
	Jobs    [][]ConcOp `json:"jobs"`
	Reps    int        `json:"reps"`
}

var concSources = []string{
	`find all @/(a)(b)\2\1/`,
	`find all @/((a)b)*c/`,
	`find all @/(?<x>a|b)(c)?\k<x>/`,
	`find all @/(a)|(b)/`,
	`find all 'a' = x maybe 'b' x`,
	`set p to pattern 'a' or 'b' find all p p`,
	`set p to pattern {'a' maybe q 'b'} = q find all p 'c' or p`,
	`find all at least 1 ('a' or 'b') fewest 'c'`,
	`replace all (digit = d) with d d`,
	`set f to transform return match + matchLength end replace all at least 1 letter with f`,
	`set p to pattern at least 1 letter begin return matchLength > 1 end find all p`,
	`set q to pattern at least 1 any fewest begin if head match == 'a' then return true end return matchLength == 2 end find all q ' ' or q`,
	`set p3 to pattern at least 1 letter begin set n to matchLength if n > 3 then return false end return n > 1 end find all p3`,
	`set f3 to transform set a to head match set b to tail match return b + a end replace all at least 2 letter with f3 '!' f3`,
	`find all @/(a/`,
	`find all (`,
	`find all @/(x)(y)(z)\3\2\1/ find all @/(q)\1/`,
	// two regex literals, the first without a group; lexer errors (unterminated
	// string, unknown character, unterminated block comment), a long source
	`find all @/x+/ '-' @/(y)(z)\2\1/`,
	`find all @/[ab]+/ find all @/(a)(b)?\1/`,
	`find all 'abc`,
	`find all 'a' # 'b'`,
	`find all 'a' --( never closed`,
	`find all 'a' -- a comment\n  'b' --( block )-- or 'c'  -- tail`,
	// a regex literal without any group; back-references in a second literal; lists
	// of three and more alternatives that overlap (the order decides)
	`find all @/ab+c/`,
	`find all @/(a)(b)/ @/(c)\1/`,
	`find all in 'a', 'ab', 'abc' in 'd', 'cd', 'bcd'`,
	`find all in 'ab', 'a', 'b', 'abb' in 'c', 'bc', 'b'`,
	// hex escapes (read by the lexer before the parser is entered), and caseless
	// literals with and over multi-byte characters
	`find all "a\x62" or '\x41\x42' or "\x31\x32"`,
	`find all '\x63' '\x64' or "\x7a\x7A" or '\x20'`,
	`find all caseless 'résumé' or caseless 'É'`,
	`find all caseless 'AB' (any = v) maybe caseless 'é'`,
	// regex literals inside the command of `set .. to matches`
	`set m to matches find all @/(a)(b)\2\1/ find all @/(c)\1/`,
	`set m to matches replace all @/(a)(b)?(c)?/ with 'x' find all @/(a)(b)/`,
	// linear on the long text (the last of concTexts): loops of hundreds of iterations
	`find all at least 1 'a' 'b'`,
	`find all at least 1 ('a' = v) named L 'b'`,
}

// the last two sources are the only ones run on the long text (the others are
// quadratic or worse on 260 equal letters); one operation in forty uses it: a run on it
// costs as much as hundreds of the others under the race detector
const concLongSources = 2

var concTexts = []string{"abba abab c abcd abbc", "aabbc ac bcb abcc", "a1b22 xyzzyx qq", "", "ababababababababababab aaaaaaaaaaaaaaaaaaaaaaaaaaaaaa 01234567890123456789", "Résumé résumé RÉSUMÉ É é abAB cd12 zZ", strings.Repeat("a", 260) + "b"}

type concResult struct {
	err  string
	recs string
}

func concCall(shared []*libvore.Vore, c ConcCase, op ConcOp) (res concResult) {
	defer func() {
		if r := recover(); r != nil {
			res = concResult{err: "panic: " + fmt.Sprint(r)}
		}
	}()
	switch op.Kind {
	case "compile":
		v, err := libvore.Compile(c.Sources[op.Src])
		if err != nil {
			return concResult{err: firstLine(err.Error())}
		}
		return concResult{recs: fmtRecs(RecsOf(v.Run(c.Texts[op.Text])))}
	default:
		v := shared[op.Src]
		if v == nil {
			return concResult{err: "not compiled"}
		}
		return concResult{recs: fmtRecs(RecsOf(v.Run(c.Texts[op.Text])))}
	}
}

func checkConcCase(c ConcCase) (sig, what string) {
	// The concurrent repetitions run FIRST and the sequential reference is computed
	// afterwards: state that is built lazily on first use (caches, interned tables)
	// is then still cold when the goroutines race for it. (A reference computed
	// first warms such state and hides the race - seeded change C19j.)
	shared := make([]*libvore.Vore, len(c.Sources))
	for i, s := range c.Sources {
		v, err, p := CompileSafe(s)
		if p == nil && err == nil {
			shared[i] = v
		}
	}
	reps := c.Reps
	if reps <= 0 {
		reps = 20
	}
	defer runtime.GOMAXPROCS(runtime.GOMAXPROCS(0))
	all := make([][][]concResult, reps)
	for rep := 0; rep < reps; rep++ {
		if rep%2 == 0 {
			runtime.GOMAXPROCS(2)
		} else {
			runtime.GOMAXPROCS(16)
		}
		got := make([][]concResult, len(c.Jobs))
		var wg sync.WaitGroup
		start := make(chan struct{})
		for g := range c.Jobs {
			wg.Add(1)
			go func(g int) {
				defer wg.Done()
				<-start
				for _, op := range c.Jobs[g] {
					got[g] = append(got[g], concCall(shared, c, op))
				}
			}(g)
		}
		close(start)
		wg.Wait()
		all[rep] = got
	}
	// sequential reference
	want := make([][]concResult, len(c.Jobs))
	for g, job := range c.Jobs {
		for _, op := range job {
			want[g] = append(want[g], concCall(shared, c, op))
		}
	}
	for rep, got := range all {
		for g := range c.Jobs {
			for i := range c.Jobs[g] {
				if got[g][i] != want[g][i] {
					op := c.Jobs[g][i]
					return "concurrent-result-differs", fmt.Sprintf("repetition %d, goroutine %d, call %d (%s of %q on %q): concurrent result %+v, sequential result %+v", rep, g, i, op.Kind, c.Sources[op.Src], c.Texts[op.Text], got[g][i], want[g][i])
				}
			}
		}
	}
	return "", ""
}

func init() {
	registerReplay("concurrent", func(raw json.RawMessage) (string, string) {
		var c ConcCase
		if err := json.Unmarshal(raw, &c); err != nil {
			return "bad-replay-file", err.Error()
		}
		// replay a schedule-dependent failure many times
		c.Reps = 200
		return checkConcCase(c)
	})
}

func TestC19(t *testing.T) {
	seedNote(t)
	st := NewStats("C19", "jobs", "rapid-generated job sets: 2..16 goroutines, each a sequence of Compile(src) (sources with and without regex groups, set-patterns, transforms, compile errors) and Run(shared program, text) calls; each set executed 20 times with GOMAXPROCS alternating 2/16 in a binary built with -race (GORACE=halt_on_error=1); oracle: every call returns its sequential result and the race detector stays silent; non-trivial = >=2 goroutines compile regex-group sources concurrently or >=2 run the same program concurrently; distinct by job set")
	defer st.Write()
	inflightPath := filepath.Join(outDir(), "inflight_C19"+map[bool]string{true: "_" + shard(), false: ""}[shard() != ""]+".json")
	rapid.Check(t, func(t *rapid.T) {
		c := ConcCase{Sources: concSources, Texts: concTexts, Reps: envInt("VERIF_C19_REPS", 20)}
		ng := rapid.IntRange(2, 16).Draw(t, "goroutines")
		// a sixth of the job sets are compile storms: every goroutine compiles sources
		// with regex literals only, so that literals of different programs interleave
		storm := rapid.IntRange(0, 5).Draw(t, "storm") == 0
		var regexSources []int
		for i, src := range concSources {
			if strings.Contains(src, "@/") {
				regexSources = append(regexSources, i)
			}
		}
		if storm {
			ng = rapid.IntRange(8, 16).Draw(t, "stormgoroutines")
			st.Count("compile_storms")
		}
		regexCompilers, runners := 0, map[int]int{}
		for g := 0; g < ng; g++ {
			var job []ConcOp
			sawRegex := false
			ranProg := map[int]bool{}
			for i := rapid.IntRange(1, 6).Draw(t, "nops"); i > 0; i-- {
				op := ConcOp{Src: rapid.IntRange(0, len(concSources)-1).Draw(t, "src"), Text: rapid.IntRange(0, len(concTexts)-2).Draw(t, "text")}
				if rapid.IntRange(0, 39).Draw(t, "longtext") == 0 {
					op.Text = len(concTexts) - 1
					op.Src = len(concSources) - 1 - rapid.IntRange(0, concLongSources-1).Draw(t, "longsrc")
				}
				if storm {
					op = ConcOp{Src: rapid.SampledFrom(regexSources).Draw(t, "stormsrc"), Text: 0}
				}
				if storm || rapid.IntRange(0, 2).Draw(t, "kind") != 0 {
					op.Kind = "compile"
					if strings.Contains(concSources[op.Src], "@/") {
						sawRegex = true
					}
				} else {
					op.Kind = "run"
					ranProg[op.Src] = true
				}
				job = append(job, op)
			}
			if sawRegex {
				regexCompilers++
			}
			for p := range ranProg {
				runners[p]++
			}
			c.Jobs = append(c.Jobs, job)
		}
		// a race report halts the process: leave the job set behind for the driver
		data, _ := json.MarshalIndent(Failure{Property: "C19", Kind: "concurrent", What: "the race detector reported a data race (or the process died) while this job set was running", Case: c, Sig: "data-race"}, "", " ")
		os.WriteFile(inflightPath, data, 0o644)
		st.Eval()
		sig, what := checkConcCase(c)
		os.Remove(inflightPath)
		if sig != "" {
			Fail(t, Failure{Property: "C19", Kind: "concurrent", What: what, Case: c, Sig: sig})
		}
		shared := false
		for _, n := range runners {
			if n >= 2 {
				shared = true
			}
		}
		if regexCompilers >= 2 {
			st.Count("concurrent_regex_compiles")
		}
		if shared {
			st.Count("shared_program_runs")
		}
		if regexCompilers >= 2 || shared {
			st.NonTrivial(jsonStr(c.Jobs), func() any { return map[string]any{"goroutines": ng, "jobs": c.Jobs[:min(3, len(c.Jobs))]} })
		}
	})
	_ = time.Now
}
