package props

import (
	"encoding/json"
	"fmt"
	"os"
	"path/filepath"
	"sort"
	"strings"
	"testing"
	"time"

	"github.com/jmeaster30/vore/libvore/files"
	"pgregory.net/rapid"
)

// globMatch is the reference: '*' stands for any run of characters (also none)
// within one segment; every other character stands for itself.
func globMatch(pat, name string) bool {
	if pat == "" {
		return name == ""
	}
	if pat[0] == '*' {
		for i := 0; i <= len(name); i++ {
			if globMatch(pat[1:], name[i:]) {
				return true
			}
		}
		return false
	}
	return name != "" && name[0] == pat[0] && globMatch(pat[1:], name[1:])
}

// TreeCase: a directory tree (relative paths; directories end in "/") and a pattern
// relative to its root (Absolute: the root path is prepended).
type TreeCase struct {
	Entries  []string `json:"entries"`
	Pattern  string   `json:"pattern"`
	Absolute bool     `json:"absolute"`
}

func buildTree(entries []string) string {
	root, err := os.MkdirTemp(scratchDir(), "c20-")
	if err != nil {
		panic(err)
	}
	for _, e := range entries {
		if i := strings.Index(e, " -> "); i >= 0 {
			// a symbolic link (created after its target: targets come earlier in the list)
			p := filepath.Join(root, e[:i])
			os.MkdirAll(filepath.Dir(p), 0o755)
			os.Symlink(e[i+4:], p)
			continue
		}
		p := filepath.Join(root, e)
		if strings.HasSuffix(e, "/") {
			os.MkdirAll(p, 0o755)
		} else {
			os.MkdirAll(filepath.Dir(p), 0o755)
			os.WriteFile(p, []byte("x"), 0o644)
		}
	}
	return root
}

// isDirFollow reports whether the entry is a directory, following symbolic links
// (a directory segment of a pattern names a directory whether it is reached
// through a link or not: the literal and the wildcard form agree on that).
func isDirFollow(path string) bool {
	fi, err := os.Stat(path)
	return err == nil && fi.IsDir()
}

// linkToDir: a symbolic link whose target is a directory. As the *last* segment of
// a pattern such an entry is neither clearly a file nor clearly not one: don't-care.
func linkToDir(path string) bool {
	fi, err := os.Lstat(path)
	return err == nil && fi.Mode()&os.ModeSymlink != 0 && isDirFollow(path)
}

// expectedFiles walks the real tree segment by segment with globMatch.
func expectedFiles(root string, segs []string) []string {
	ents, err := os.ReadDir(root)
	if err != nil {
		return nil
	}
	var out []string
	if len(segs) == 1 {
		for _, e := range ents {
			p := filepath.Join(root, e.Name())
			if !isDirFollow(p) && globMatch(segs[0], e.Name()) {
				out = append(out, p)
			}
		}
		return out
	}
	for _, e := range ents {
		p := filepath.Join(root, e.Name())
		if isDirFollow(p) && globMatch(segs[0], e.Name()) {
			out = append(out, expectedFiles(p, segs[1:])...)
		}
	}
	return out
}

func fileListSafe(pattern, dir string) (list []string, p *PanicInfo) {
	defer func() {
		if r := recover(); r != nil {
			p = capturePanic(r)
		}
	}()
	list = files.ParsePath(pattern).GetFileList(dir)
	return
}

func checkTreeCase(c TreeCase) (sig, what string) {
	root := buildTree(c.Entries)
	defer os.RemoveAll(root)
	return checkPatternIn(root, c.Pattern, c.Absolute)
}

func checkPatternIn(root, pattern string, absolute bool) (sig, what string) {
	pat := pattern
	if absolute {
		pat = root + "/" + pattern
	}
	got, p := fileListSafe(pat, root)
	if p != nil {
		return p.Sig(), fmt.Sprintf("GetFileList(%q) panicked: %s", pat, p.Sig())
	}
	want := expectedFiles(root, strings.Split(pattern, "/"))
	var gotClean []string
	for _, g := range got {
		if linkToDir(filepath.Clean(g)) {
			continue // don't-care, see linkToDir
		}
		gotClean = append(gotClean, filepath.Clean(g))
	}
	sort.Strings(gotClean)
	sort.Strings(want)
	rel := func(l []string) []string {
		out := []string{}
		for _, x := range l {
			r, _ := filepath.Rel(root, x)
			out = append(out, r)
		}
		return out
	}
	for i := 1; i < len(gotClean); i++ {
		if gotClean[i] == gotClean[i-1] {
			return "duplicate-file", fmt.Sprintf("pattern %q lists %q twice", pattern, rel(gotClean)[i])
		}
	}
	if strings.Join(gotClean, "\x00") != strings.Join(want, "\x00") {
		return "file-list-mismatch", fmt.Sprintf("pattern %q (absolute=%v): got %v, the pattern describes %v", pattern, absolute, rel(gotClean), rel(want))
	}
	return "", ""
}

func init() {
	registerReplay("tree", func(raw json.RawMessage) (string, string) {
		var c TreeCase
		if err := json.Unmarshal(raw, &c); err != nil {
			return "bad-replay-file", err.Error()
		}
		return checkTreeCase(c)
	})
}

func allStrings(alpha string, minLen, maxLen int) []string {
	var out []string
	var rec func(prefix string, n int)
	rec = func(prefix string, n int) {
		if n == 0 {
			out = append(out, prefix)
			return
		}
		for i := 0; i < len(alpha); i++ {
			rec(prefix+alpha[i:i+1], n-1)
		}
	}
	for l := minLen; l <= maxLen; l++ {
		rec("", l)
	}
	return out
}

// starThenRepeated: the pattern has a star followed by text that occurs more
// than once in some candidate name.
func starThenRepeated(pattern string, names []string) bool {
	for i := 0; i < len(pattern); i++ {
		if pattern[i] != '*' {
			continue
		}
		rest := pattern[i+1:]
		end := strings.IndexByte(rest, '*')
		if end >= 0 {
			rest = rest[:end]
		}
		if rest == "" {
			continue
		}
		for _, n := range names {
			if strings.Count(n, rest) >= 2 || (strings.Count(n, rest) == 1 && strings.Contains(n[strings.Index(n, rest)+1:], rest[:1]) && len(rest) > 1) {
				return true
			}
		}
	}
	return false
}

func TestC20Table(t *testing.T) {
	seedNote(t)
	StartWatchdog("C20", 60*time.Second)
	st := NewStats("C20", "table", "exhaustive: one directory holding every file name of length 1..4 over {a,b,.} (minus . and ..) x every pattern of length 1..5 over {a,b,.,*} with at most 3 stars (minus . and ..); oracle: 10-line recursive glob; compared as sorted lists (none missing, none extra, no duplicates); non-trivial = the pattern has a star followed by text that occurs more than once in some candidate name; evaluations = (pattern, name) pairs")
	st.Exhaustive = true
	defer st.Write()
	var names []string
	for _, n := range allStrings("ab.", 1, 4) {
		if n != "." && n != ".." {
			names = append(names, n)
		}
	}
	root := buildTree(names)
	defer os.RemoveAll(root)
	// a sub-directory with a matching name must never be listed
	os.MkdirAll(filepath.Join(root, "ab.ab"), 0o755)
	for _, pat := range allStrings("ab.*", 1, 5) {
		if strings.Count(pat, "*") > 3 || pat == "." || pat == ".." {
			continue
		}
		st.EvalN(len(names))
		sig, what := checkPatternIn(root, pat, false)
		if sig != "" {
			c := TreeCase{Entries: append(append([]string{}, names...), "ab.ab/"), Pattern: pat}
			Fail(t, Failure{Property: "C20", Kind: "tree", What: what, Case: c, Sig: sig})
		}
		st.Count("patterns")
		if starThenRepeated(pat, names) {
			st.NonTrivial(pat, func() any { return map[string]any{"pattern": pat} })
		}
	}
}

var segNames = []string{"a", "b", "ab", "ba", "a.b", "x.txt", "a.txt", "a.txt.txt", ".a", "abab", "aXbXb", "data", "d1", "d2", "src", "a[1]", "a1", "a?b", "a\\b", "[ab]", "a]", "\u00e9", "\u00e9t\u00e9.txt", "\u0436\u0443\u04401.log", "\u5831\u544a.txt", "a \u00e9"}

func genSegmentPattern(t *rapid.T, dirSegment bool) string {
	for {
		base := []rune(rapid.SampledFrom(segNames).Draw(t, "segbase"))
		switch rapid.IntRange(0, 6).Draw(t, "segform") {
		case 0, 1:
			return string(base)
		case 2:
			if !dirSegment {
				return "*"
			}
		case 3:
			return "*" + string(base[len(base)/2:])
		case 4:
			return string(base[:(len(base)+1)/2]) + "*"
		case 5:
			return string(base[:1]) + "*" + string(base[len(base)-1:])
		default:
			return "*" + string(base[len(base)-1:]) + "*"
		}
	}
}

func TestC20Trees(t *testing.T) {
	seedNote(t)
	StartWatchdog("C20", 60*time.Second)
	st := NewStats("C20", "trees", "generated directory trees of depth <= 3 (files and directories with equal names on different levels, dot files, repeated substrings, names with [ ] ? and backslash, non-ASCII names (accented, Cyrillic, CJK), symbolic links to directories and files) x relative and absolute patterns with stars in directory and file segments (star-only directory segments and ./.. segments excluded, as the property says); oracle: segment-by-segment walk with the reference glob; non-trivial = a wildcard directory segment, or a star followed by text occurring more than once in a candidate name; distinct by (tree, pattern)")
	defer st.Write()
	rapid.Check(t, func(t *rapid.T) {
		var entries []string
		nd := rapid.IntRange(0, 7).Draw(t, "ndirs")
		dirs := []string{""}
		for i := 0; i < nd; i++ {
			parent := rapid.SampledFrom(dirs).Draw(t, "parent")
			if strings.Count(parent, "/") >= 2 {
				parent = ""
			}
			d := parent + rapid.SampledFrom(segNames).Draw(t, "dname") + "/"
			dirs = append(dirs, d)
			entries = append(entries, d)
		}
		// a file with the name of its own directory (equal names on different levels)
		for _, d := range dirs[1:] {
			if rapid.Bool().Draw(t, "echo") {
				entries = append(entries, d+filepath.Base(strings.TrimSuffix(d, "/")))
			}
		}
		nf := rapid.IntRange(1, 8).Draw(t, "nfiles")
		seen := map[string]bool{}
		for _, d := range dirs {
			seen[strings.TrimSuffix(d, "/")] = true
		}
		for i := 0; i < nf; i++ {
			f := rapid.SampledFrom(dirs).Draw(t, "fdir") + rapid.SampledFrom(segNames).Draw(t, "fname")
			if seen[f] {
				continue
			}
			seen[f] = true
			entries = append(entries, f)
		}
		// symbolic links: to a directory (followed by directory segments, literal or
		// wildcard alike) and to a file (a file)
		nlinks := 0
		var dirLinks []string
		if rapid.IntRange(0, 2).Draw(t, "links") == 0 {
			for i := rapid.IntRange(1, 2).Draw(t, "nlinks"); i > 0 && len(entries) > 0; i-- {
				target := rapid.SampledFrom(entries).Draw(t, "ltarget")
				if strings.Contains(target, " -> ") {
					continue
				}
				name := rapid.SampledFrom(segNames).Draw(t, "lname")
				if seen[name] {
					continue
				}
				seen[name] = true
				entries = append(entries, name+" -> "+strings.TrimSuffix(target, "/"))
				nlinks++
				if strings.HasSuffix(target, "/") {
					dirLinks = append(dirLinks, name)
				}
			}
		}
		depth := rapid.IntRange(1, 3).Draw(t, "pdepth")
		var segs []string
		wildDir := false
		for i := 0; i < depth; i++ {
			s := genSegmentPattern(t, i < depth-1)
			if i > 0 && rapid.IntRange(0, 3).Draw(t, "sameseg") == 0 && !(i == depth-1 && segs[i-1] == "*") {
				s = segs[rapid.IntRange(0, i-1).Draw(t, "whichseg")] // the same text on two levels
			}
			if i < depth-1 && strings.Contains(s, "*") {
				wildDir = true
			}
			segs = append(segs, s)
		}
		if len(dirLinks) > 0 && rapid.Bool().Draw(t, "throughlink") {
			// the pattern goes through a link to a directory, named literally or by a
			// pattern with a star
			l := rapid.SampledFrom(dirLinks).Draw(t, "vialink")
			if lr := []rune(l); rapid.IntRange(0, 2).Draw(t, "linkstar") == 0 && len(lr) > 1 {
				l = string(lr[:1]) + "*" + string(lr[len(lr)-1:])
			}
			segs = append([]string{l}, segs...)
			st.Count("pattern_through_a_link_to_a_directory")
		}
		c := TreeCase{Entries: entries, Pattern: strings.Join(segs, "/"), Absolute: rapid.IntRange(0, 3).Draw(t, "abs") == 0}
		st.Eval()
		sig, what := checkTreeCase(c)
		if sig != "" {
			Fail(t, Failure{Property: "C20", Kind: "tree", What: fmt.Sprintf("tree %v: %s", entries, what), Case: c, Sig: sig})
		}
		if c.Absolute {
			st.Count("absolute")
		}
		if nlinks > 0 {
			st.Count("with_symbolic_links")
		}
		var leafNames []string
		for _, e := range entries {
			leafNames = append(leafNames, filepath.Base(strings.TrimSuffix(e, "/")))
		}
		if wildDir || starThenRepeated(c.Pattern, leafNames) {
			st.NonTrivial(fmt.Sprint(entries, c.Pattern, c.Absolute), func() any { return c })
		}
	})
}

// TestC20Wide: directories with hundreds to thousands of entries (a directory
// listing read in batches, a result list that outgrows its first allocation), with
// entry counts on both sides of powers of two.
func TestC20Wide(t *testing.T) {
	seedNote(t)
	StartWatchdog("C20", 90*time.Second)
	st := NewStats("C20", "wide", "exhaustive over (entry count, pattern): one directory d/ and the root each holding N entries (files f0000.., every 10th entry a directory g0000../ with one file) for N in {1, 100, 255..257, 511..513, 1000, 1023..1025, 2048} (thorough: every N in 250..260, 505..520, 1020..1030, 2040..2050, 4095..4097) x 10 patterns with literal, star and mixed file and directory segments; oracle: the reference glob walk; every case non-trivial; distinct by (N, pattern)")
	st.Exhaustive = true
	defer st.Write()
	counts := []int{1, 100, 255, 256, 257, 511, 512, 513, 1000, 1023, 1024, 1025, 2048}
	if tier() == "thorough" {
		counts = nil
		for _, r := range [][2]int{{1, 1}, {100, 100}, {250, 260}, {505, 520}, {1020, 1030}, {2040, 2050}, {4095, 4097}} {
			for n := r[0]; n <= r[1]; n++ {
				counts = append(counts, n)
			}
		}
	}
	patterns := []string{"d/*", "d/f*", "d/*7", "d/f0000", "d*/f0000", "d*/*1*", "f*", "*", "d/g*/*", "g*0/h"}
	nshards := envInt("VERIF_NSHARDS", 1)
	shardIdx := envInt("VERIF_SHARD_INDEX", 0)
	for ci, n := range counts {
		if ci%nshards != shardIdx {
			continue
		}
		var entries []string
		for _, dir := range []string{"", "d/"} {
			for i := 0; i < n; i++ {
				if i%10 == 9 {
					entries = append(entries, fmt.Sprintf("%sg%04d/", dir, i), fmt.Sprintf("%sg%04d/h", dir, i))
				} else {
					entries = append(entries, fmt.Sprintf("%sf%04d", dir, i))
				}
			}
		}
		if n == 1 {
			entries = append(entries, "d/")
		}
		root := buildTree(entries)
		for _, pat := range patterns {
			for _, abs := range []bool{false, true} {
				st.Eval()
				sig, what := checkPatternIn(root, pat, abs)
				if sig != "" {
					os.RemoveAll(root)
					Fail(t, Failure{Property: "C20", Kind: "tree", What: fmt.Sprintf("directories with %d entries: %s", n, clipMsg(what, 400)), Case: TreeCase{Entries: entries, Pattern: pat, Absolute: abs}, Sig: sig})
				}
				st.NonTrivial(fmt.Sprint(n, pat, abs), func() any { return map[string]any{"entries_per_directory": n, "pattern": pat, "absolute": abs} })
			}
		}
		os.RemoveAll(root)
	}
}
