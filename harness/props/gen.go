package props

// rapid generators: pattern programs, texts (random, sampled from the pattern,
// mutated), layouts.

import (
	"fmt"
	"strings"

	"pgregory.net/rapid"
)

type Features struct {
	Caps        bool // `= name` captures
	Refs        bool // back-references
	Subs        bool // inline subroutines, calls, guarded recursion
	Globals     bool // set .. to pattern (with / without predicate)
	WordAnchors bool
	CapBias     bool // C02: prefer captures under or / optional loops
	Wide        bool // invariant-only constructs: whole *, named loops, empty literals, regex
	NamedLoops  bool // named loops (nested variable maps); captures inside them are never back-referenced
	NoNot       bool
}

var AllModelFeatures = Features{Caps: true, Refs: true, Subs: true, Globals: true, WordAnchors: true}

type gctx struct {
	t        *rapid.T
	f        Features
	caps     []string
	subs     []string
	globals  []string
	nameN    int
	inSub    string
	guarded  bool
	allowDef bool
	loopProd int // product of loop bounds so far (keeps unrolled code small)
	inNamed  int // depth of enclosing named loops
}

var litAlphabet = []string{"a", "b", "ab", "ba", "aa", "c", "A", "0", " ", "\n", "_", "abc", "-", "7", "\u00e9", "\u00c9a"}
var singleAlphabet = []string{"a", "b", "c", "A", "0", " ", "\n", "_", "-", "7", "B"}
var classNames = []string{"any", "whitespace", "digit", "upper", "lower", "letter"}
var anchorNames = []string{"file start", "file end", "line start", "line end", "word start", "word end"}
var wholeNames = []string{"whole file", "whole line", "whole word"}

// keyword-like beginnings of identifiers: `orv3`, `endL2`, `inv1` are identifiers,
// not a keyword followed by something
var keywordPrefixes = []string{"or", "in", "not", "end", "to", "any", "find", "set", "with", "if", "then", "else", "loop", "true", "false", "digit", "top", "last", "all", "at", "maybe", "named", "fewest", "line", "file", "word", "whole", "start", "is", "function", "return", "Match", "begin"}

func (g *gctx) name(prefix string) string {
	g.nameN++
	if rapid.IntRange(0, 3).Draw(g.t, "kwname") == 0 {
		prefix = rapid.SampledFrom(keywordPrefixes).Draw(g.t, "kwprefix") + prefix
	}
	return fmt.Sprintf("%s%d", prefix, g.nameN)
}

func (g *gctx) lit() *Node {
	s := rapid.SampledFrom(litAlphabet).Draw(g.t, "lit")
	n := &Node{K: KLit, S: s}
	switch rapid.IntRange(0, 11).Draw(g.t, "litmod") {
	case 0:
		if !g.f.NoNot {
			n.Not = true
			if rapid.IntRange(0, 3).Draw(g.t, "notlong") != 0 {
				n.S = rapid.SampledFrom(singleAlphabet).Draw(g.t, "notlit")
			}
		}
	case 1:
		n.Caseless = true
	}
	return n
}

func (g *gctx) consuming() *Node {
	if rapid.Bool().Draw(g.t, "consLit") {
		return &Node{K: KLit, S: rapid.SampledFrom([]string{"a", "b", "ab"}).Draw(g.t, "clit")}
	}
	return &Node{K: KClass, Class: rapid.SampledFrom([]string{"any", "lower", "letter"}).Draw(g.t, "ccls")}
}

func (g *gctx) item(single bool) Item {
	switch rapid.IntRange(0, 3).Draw(g.t, "itemkind") {
	case 0, 1:
		pool := litAlphabet
		if single {
			pool = singleAlphabet
		}
		return Item{Kind: 0, S: rapid.SampledFrom(pool).Draw(g.t, "items"), Caseless: rapid.IntRange(0, 5).Draw(g.t, "itemcl") == 0}
	case 2:
		r := rapid.SampledFrom([][2]string{{"a", "b"}, {"a", "c"}, {"b", "c"}, {"A", "Z"}, {"0", "5"}, {"a", "a"}, {"0", "9"}}).Draw(g.t, "range")
		return Item{Kind: 1, From: r[0], To: r[1]}
	default:
		return Item{Kind: 2, Class: rapid.SampledFrom(classNames).Draw(g.t, "itemclass")}
	}
}

func (g *gctx) atom() *Node {
	choices := []string{"lit", "lit", "lit", "class", "anchor", "in"}
	if g.f.Refs && len(g.caps) > 0 {
		choices = append(choices, "ref", "ref")
	}
	if g.f.Subs && (len(g.subs) > 0 || (g.inSub != "" && g.guarded)) {
		choices = append(choices, "call", "call")
	}
	if g.f.Globals && len(g.globals) > 0 {
		choices = append(choices, "global", "global")
	}
	if g.f.Wide {
		choices = append(choices, "whole", "emptylit")
	}
	switch rapid.SampledFrom(choices).Draw(g.t, "atom") {
	case "lit":
		return g.lit()
	case "class":
		not := !g.f.NoNot && rapid.IntRange(0, 3).Draw(g.t, "classnot") == 0
		return &Node{K: KClass, Class: rapid.SampledFrom(classNames).Draw(g.t, "class"), Not: not}
	case "anchor":
		as := anchorNames
		if !g.f.WordAnchors {
			as = anchorNames[:4]
		}
		not := !g.f.NoNot && rapid.IntRange(0, 3).Draw(g.t, "anchornot") == 0
		return &Node{K: KAnchor, Class: rapid.SampledFrom(as).Draw(g.t, "anchor"), Not: not}
	case "in":
		not := !g.f.NoNot && rapid.IntRange(0, 2).Draw(g.t, "innot") == 0
		n := &Node{K: KIn, Not: not}
		cnt := rapid.IntRange(1, 3).Draw(g.t, "incount")
		for i := 0; i < cnt; i++ {
			n.Items = append(n.Items, g.item(not))
		}
		return n
	case "ref":
		return &Node{K: KRef, S: rapid.SampledFrom(g.caps).Draw(g.t, "refname")}
	case "call":
		names := append([]string{}, g.subs...)
		if g.inSub != "" && g.guarded {
			names = append(names, g.inSub)
		}
		return &Node{K: KCall, S: rapid.SampledFrom(names).Draw(g.t, "callname")}
	case "global":
		return &Node{K: KGlobal, S: rapid.SampledFrom(g.globals).Draw(g.t, "globalname")}
	case "whole":
		return &Node{K: KWhole, Class: rapid.SampledFrom(wholeNames).Draw(g.t, "whole"), Not: rapid.IntRange(0, 4).Draw(g.t, "wholenot") == 0}
	case "emptylit":
		return &Node{K: KLit, S: ""}
	}
	panic("atom")
}

func (g *gctx) loopShape(n *Node) {
	n.Min = rapid.SampledFrom([]int{0, 0, 0, 1, 1, 2, 3}).Draw(g.t, "min")
	switch rapid.IntRange(0, 2).Draw(g.t, "maxkind") {
	case 0:
		n.Max = -1
	case 1:
		n.Max = n.Min + rapid.IntRange(0, 2).Draw(g.t, "maxd")
	default:
		n.Min, n.Max = 0, 1
	}
	n.Fewest = rapid.IntRange(0, 2).Draw(g.t, "fewest") == 0
}

func (g *gctx) node(depth int) *Node {
	if depth <= 0 {
		return g.atom()
	}
	choices := []string{"atom", "atom", "seq", "loop", "loop", "or"}
	if g.f.Caps && g.allowDef {
		choices = append(choices, "cap", "cap")
		if g.f.CapBias {
			choices = append(choices, "cap", "cap", "capor", "caploop")
			if g.f.NamedLoops && g.inSub == "" {
				choices = append(choices, "namednest", "namedwrap")
			}
		}
	}
	if g.f.Subs && g.allowDef && g.inSub == "" {
		choices = append(choices, "sub")
	}
	switch rapid.SampledFrom(choices).Draw(g.t, "node") {
	case "atom":
		return g.atom()
	case "seq":
		n := &Node{K: KSeq}
		cnt := rapid.IntRange(0, 3).Draw(g.t, "seqn")
		for i := 0; i < cnt; i++ {
			n.Kids = append(n.Kids, g.node(depth-1))
		}
		return n
	case "loop":
		n := &Node{K: KLoop}
		g.loopShape(n)
		named := (g.f.Wide || g.f.NamedLoops) && n.Min != n.Max && rapid.IntRange(0, 3).Draw(g.t, "named") == 0
		wantMin := 0
		if g.f.NamedLoops && !g.f.Wide {
			if g.inSub != "" {
				named = false // keep named loops out of subroutine bodies in the model-based checks
			}
			if named {
				// a named loop is not unrolled, so its zero-width guard also rejects an empty
				// *mandatory* iteration (unnamed loops allow it): undocumented -> min 0 only,
				// unless the body turns out to be unable to match nothing (restored below)
				wantMin = n.Min
				n.Min = 0
				if n.Max == 0 {
					n.Max = 1
				}
			}
		}
		saved, savedProd := g.allowDef, g.loopProd
		if (n.Min > 0 && !named) || n.Max == 0 {
			g.allowDef = false
		}
		factor := n.Min + 1
		if g.loopProd*factor > 12 {
			n.Min = 0
			if n.Max != -1 && n.Max < 1 {
				n.Max = 1
			}
			factor = 1
			g.allowDef = saved && n.Max != 0
		}
		g.loopProd *= factor
		if named {
			g.inNamed++
		}
		n.Body = g.node(depth - 1)
		if named {
			g.inNamed--
			if wantMin > 0 && (n.Max == -1 || wantMin <= n.Max) && !Nullable(n.Body, nil) {
				n.Min = wantMin // a mandatory iteration of such a body always consumes
			}
		}
		g.allowDef, g.loopProd = saved, savedProd
		if named {
			n.Name = g.name("L")
		}
		return n
	case "or":
		n := &Node{K: KOr}
		cnt := rapid.IntRange(2, 3).Draw(g.t, "orn")
		for i := 0; i < cnt; i++ {
			n.Kids = append(n.Kids, g.node(depth-1))
		}
		return n
	case "cap":
		name := g.name("v")
		n := &Node{K: KCap, S: name, Body: g.node(depth - 1)}
		if g.inNamed == 0 {
			g.caps = append(g.caps, name)
		}
		return n
	case "capor":
		// (X = v Y) or Z : a binding made on a path that may be abandoned
		name := g.name("v")
		capn := &Node{K: KCap, S: name, Body: g.node(depth - 1)}
		first := &Node{K: KSeq, Kids: []*Node{capn, g.node(depth - 1)}}
		if g.inNamed == 0 {
			g.caps = append(g.caps, name)
		}
		return &Node{K: KOr, Kids: []*Node{first, g.node(depth - 1)}}
	case "caploop":
		name := g.name("v")
		capn := &Node{K: KCap, S: name, Body: g.node(depth - 1)}
		if g.inNamed == 0 {
			g.caps = append(g.caps, name)
		}
		l := &Node{K: KLoop, Min: 0, Max: rapid.SampledFrom([]int{-1, 1, 2}).Draw(g.t, "clmax"), Fewest: rapid.IntRange(0, 3).Draw(g.t, "clfew") == 0,
			Body: &Node{K: KSeq, Kids: []*Node{capn, g.node(depth - 1)}}}
		return l
	case "namednest":
		// an outer named loop whose body is: an inner (often lazy) named loop, an optional
		// group that binds a capture and may fail afterwards, and something consuming
		inner := &Node{K: KLoop, Min: 0, Max: rapid.SampledFrom([]int{-1, 2}).Draw(g.t, "nnimax"), Fewest: rapid.IntRange(0, 2).Draw(g.t, "nnifew") != 0, Name: g.name("L")}
		g.inNamed += 2
		inner.Body = g.consuming()
		capn := &Node{K: KCap, S: g.name("v"), Body: g.atom()}
		opt := &Node{K: KLoop, Min: 0, Max: 1, Body: &Node{K: KSeq, Kids: []*Node{capn, g.atom()}}}
		tail := g.atom()
		g.inNamed -= 2
		outer := &Node{K: KLoop, Min: 0, Max: rapid.SampledFrom([]int{-1, 2, 3}).Draw(g.t, "nnomax"), Fewest: rapid.IntRange(0, 3).Draw(g.t, "nnofew") == 0, Name: g.name("L"),
			Body: &Node{K: KSeq, Kids: []*Node{inner, opt, tail}}}
		return outer
	case "namedwrap":
		// a named loop around unnamed loops around a capture: the capture is written
		// into the named loop's table, which is not the innermost loop on the stack
		g.inNamed++
		capn := &Node{K: KCap, S: g.name("v"), Body: &Node{K: KSeq, Kids: []*Node{g.consuming(), g.atom()}}}
		innermost := &Node{K: KLoop, Min: 0, Max: rapid.SampledFrom([]int{-1, 1, 2}).Draw(g.t, "nwimax"), Fewest: rapid.IntRange(0, 3).Draw(g.t, "nwifew") == 0, Body: capn}
		middle := &Node{K: KLoop, Min: 0, Max: rapid.SampledFrom([]int{-1, 2}).Draw(g.t, "nwmmax"), Body: &Node{K: KSeq, Kids: []*Node{innermost, g.consuming()}}}
		g.inNamed--
		return &Node{K: KLoop, Min: 0, Max: rapid.SampledFrom([]int{-1, 3}).Draw(g.t, "nwomax"), Name: g.name("L"), Body: middle}
	case "sub":
		name := g.name("s")
		n := &Node{K: KSub, S: name}
		g.inSub = name
		g.guarded = false
		n.Kids = append(n.Kids, g.consuming())
		g.guarded = true
		cnt := rapid.IntRange(0, 2).Draw(g.t, "subn")
		for i := 0; i < cnt; i++ {
			n.Kids = append(n.Kids, g.node(depth-1))
		}
		g.inSub = ""
		g.guarded = false
		g.subs = append(g.subs, name)
		return n
	}
	panic("node")
}

// predicate templates over match / matchLength (kept small: the process language
// has its own properties C11/C12)
func genPredicate(t *rapid.T) []Stmt {
	m := Var("match", TString)
	ml := Var("matchLength", TNumber)
	switch rapid.IntRange(0, 6).Draw(t, "pred") {
	case 0:
		return []Stmt{{K: "return", E: Bin("==", Bin("%", ml, Num(2)), Num(0))}}
	case 1:
		return []Stmt{{K: "return", E: Bin("<", ml, Num(rapid.IntRange(1, 3).Draw(t, "predn")))}}
	case 2:
		return []Stmt{{K: "return", E: Bin("==", Un("head", m), Str("a"))}}
	case 3:
		return []Stmt{{K: "return", E: Bin("!=", m, Str(rapid.SampledFrom([]string{"ab", "a", "aa", "b"}).Draw(t, "preds")))}}
	case 4:
		return []Stmt{{K: "if", E: Bin(">", ml, Num(1)), Then: []Stmt{{K: "return", E: Bool(false)}}}, {K: "return", E: Bool(true)}}
	case 5:
		return []Stmt{{K: "return", E: Bin(">=", m, Str("b"))}}
	default:
		return []Stmt{{K: "return", E: Bin("!=", Un("tail", m), Str(""))}}
	}
}

// GenBodyProgram generates globals and one command body.
func GenBodyProgram(t *rapid.T, f Features, depth int) ([]Global, []*Node) {
	g := &gctx{t: t, f: f, allowDef: true, loopProd: 1}
	var globals []Global
	if f.Globals {
		ng := rapid.IntRange(0, 2).Draw(t, "nglobals")
		for i := 0; i < ng; i++ {
			name := g.name("g")
			savedCaps, savedSubs := g.caps, g.subs
			g.caps, g.subs = nil, nil
			cnt := rapid.IntRange(1, 2).Draw(t, "gbodyn")
			var body []*Node
			for j := 0; j < cnt; j++ {
				body = append(body, g.node(depth))
			}
			g.caps, g.subs = savedCaps, savedSubs
			var pred []Stmt
			if rapid.IntRange(0, 2).Draw(t, "haspred") == 0 {
				pred = genPredicate(t)
			}
			globals = append(globals, Global{Name: name, Body: body, Pred: pred})
			g.globals = append(g.globals, name)
		}
	}
	cnt := rapid.IntRange(1, 3).Draw(t, "bodyn")
	var body []*Node
	for i := 0; i < cnt; i++ {
		body = append(body, g.node(depth))
	}
	return globals, body
}

// ---------------------------------------------------------------- texts

var textPieces = []string{"a", "a", "b", "b", "ab", "c", "A", "B", "0", "7", " ", "\n", "_", "-", "\t", "aa", "abc"}

func GenRandomText(t *rapid.T, maxPieces int, allowCR bool) string {
	pieces := textPieces
	if allowCR {
		pieces = append(append([]string{}, textPieces...), "\r\n", "\r")
	}
	if rapid.IntRange(0, 5).Draw(t, "nonascii") == 0 {
		// vore matches bytes: multi-byte UTF-8 sequences and bytes that are not
		// UTF-8 at all are just more bytes (classes are ASCII, `any` is one byte)
		pieces = append(append([]string{}, pieces...), "\u00e9", "\u65e5", "\u00c9", "\xff", "\u00e9a")
	}
	parts := rapid.SliceOfN(rapid.SampledFrom(pieces), 0, maxPieces).Draw(t, "text")
	return strings.Join(parts, "")
}

type sampler struct {
	t       *rapid.T
	subs    map[string]*Node
	globals map[string]Global
	caps    map[string]string
	depth   int
}

func otherByte(c byte) string {
	for _, o := range []byte("abA0 _-\n") {
		if o != c {
			return string(o)
		}
	}
	return "z"
}

func classRep(t *rapid.T, class string, not bool) string {
	pick := func(s []string) string { return rapid.SampledFrom(s).Draw(t, "rep") }
	if not {
		switch class {
		case "any":
			return ""
		case "whitespace", "digit", "upper":
			return pick([]string{"a", "b", "_"})
		case "lower", "letter":
			return pick([]string{"0", " ", "-", "7"})
		}
	}
	switch class {
	case "any":
		return pick([]string{"a", "b", " ", "\n", "0"})
	case "whitespace":
		return pick([]string{" ", "\n", "\t"})
	case "digit":
		return pick([]string{"0", "7"})
	case "upper":
		return pick([]string{"A", "B"})
	case "lower":
		return pick([]string{"a", "b", "c"})
	case "letter":
		return pick([]string{"a", "B", "c"})
	}
	return "a"
}

func (s *sampler) item(it Item) string {
	switch it.Kind {
	case 0:
		return it.S
	case 1:
		return it.From
	default:
		return classRep(s.t, it.Class, false)
	}
}

func (s *sampler) sample(n *Node) string {
	if n == nil {
		return ""
	}
	s.depth++
	defer func() { s.depth-- }()
	if s.depth > 12 {
		return ""
	}
	switch n.K {
	case KLit:
		if n.Not {
			if len(n.S) == 0 {
				return ""
			}
			return otherByte(n.S[0]) + n.S[1:]
		}
		if n.Caseless && rapid.Bool().Draw(s.t, "upper") {
			return strings.ToUpper(n.S)
		}
		return n.S
	case KClass:
		return classRep(s.t, n.Class, n.Not)
	case KAnchor, KWhole, KRegex:
		return ""
	case KIn:
		if n.Not {
			return rapid.SampledFrom([]string{"a", "b", "0", " ", "-", "_"}).Draw(s.t, "notin")
		}
		return s.item(n.Items[rapid.IntRange(0, len(n.Items)-1).Draw(s.t, "initem")])
	case KSeq, KSub:
		if n.K == KSub {
			s.subs[n.S] = n
		}
		var b strings.Builder
		for _, k := range n.Kids {
			b.WriteString(s.sample(k))
		}
		return b.String()
	case KLoop:
		max := n.Max
		if max == -1 || max > n.Min+2 {
			max = n.Min + 2
		}
		cnt := rapid.IntRange(n.Min, max).Draw(s.t, "iters")
		var b strings.Builder
		for i := 0; i < cnt; i++ {
			b.WriteString(s.sample(n.Body))
		}
		return b.String()
	case KOr:
		return s.sample(n.Kids[rapid.IntRange(0, len(n.Kids)-1).Draw(s.t, "alt")])
	case KCap:
		v := s.sample(n.Body)
		s.caps[n.S] = v
		return v
	case KRef:
		return s.caps[n.S]
	case KCall:
		if sub, ok := s.subs[n.S]; ok && s.depth < 6 {
			var b strings.Builder
			for _, k := range sub.Kids {
				b.WriteString(s.sample(k))
			}
			return b.String()
		}
		return ""
	case KGlobal:
		g := s.globals[n.S]
		var b strings.Builder
		for _, k := range g.Body {
			b.WriteString(s.sample(k))
		}
		return b.String()
	}
	return ""
}

// SampleFromPattern produces a text that follows one path through the pattern.
func SampleFromPattern(t *rapid.T, globals []Global, body []*Node) string {
	s := &sampler{t: t, subs: map[string]*Node{}, globals: map[string]Global{}, caps: map[string]string{}}
	for _, g := range globals {
		s.globals[g.Name] = g
		for _, n := range g.Body {
			collectSubs(n, s.subs)
		}
	}
	for _, n := range body {
		collectSubs(n, s.subs)
	}
	var b strings.Builder
	for _, n := range body {
		b.WriteString(s.sample(n))
	}
	return b.String()
}

// GenText mixes the three text sources of DESIGN.md 3.6.
func GenText(t *rapid.T, globals []Global, body []*Node, allowCR bool, maxLen int) (text string, source string) {
	switch rapid.IntRange(0, 9).Draw(t, "textsrc") {
	case 0, 1, 2:
		text, source = GenRandomText(t, 8, allowCR), "random"
	case 3, 4, 5, 6:
		pre := GenRandomText(t, 2, allowCR)
		post := GenRandomText(t, 2, allowCR)
		mid := SampleFromPattern(t, globals, body)
		if rapid.Bool().Draw(t, "twice") {
			mid = mid + GenRandomText(t, 1, allowCR) + SampleFromPattern(t, globals, body)
		}
		text, source = pre+mid+post, "sampled"
	default:
		mid := SampleFromPattern(t, globals, body)
		if len(mid) > 0 {
			switch rapid.IntRange(0, 2).Draw(t, "mut") {
			case 0: // prefix: the input ends in the middle of a construct
				mid = mid[:rapid.IntRange(0, len(mid)-1).Draw(t, "cut")]
			case 1: // one byte changed
				i := rapid.IntRange(0, len(mid)-1).Draw(t, "muti")
				mid = mid[:i] + otherByte(mid[i]) + mid[i+1:]
			default: // one byte dropped
				i := rapid.IntRange(0, len(mid)-1).Draw(t, "dropi")
				mid = mid[:i] + mid[i+1:]
			}
		}
		text, source = GenRandomText(t, 1, allowCR)+mid, "mutated"
	}
	if !allowCR {
		text = strings.ReplaceAll(text, "\r", "")
	}
	if len(text) > maxLen {
		text = text[:maxLen]
	}
	return
}

// ---------------------------------------------------------------- layouts

var sepKinds = []string{"emptylinecomment", "space", "newline", "tabs", "linecomment", "linecomment_nolead", "blockcomment", "blockcomment_blanks", "nothing", "crlf", "formfeed_vtab"}

func sepOf(kind string, body string) string {
	switch kind {
	case "space":
		return " "
	case "newline":
		return "\n"
	case "tabs":
		return "\t\t"
	case "crlf":
		return "\r\n"
	case "formfeed_vtab":
		return "\f\v" // the documented WS token is the regex \s
	case "emptylinecomment":
		return "--\n"
	case "linecomment":
		return " -- " + body + "\n"
	case "linecomment_nolead":
		if strings.HasPrefix(body, "(") {
			body = " " + body // "--(" would open a block comment
		}
		return "--" + body + "\n"
	case "blockcomment":
		return "--(" + body + ")--"
	case "blockcomment_blanks":
		return " --( " + body + " )-- "
	case "nothing":
		return ""
	}
	panic("sep " + kind)
}

var commentBodies = []string{"", "c", "find all 'x'", "a ) b", "-- nested", "it's \"quoted\"", "end", ")", "-", "x )-", ")-)", "( a (b) c )", "))", "a-)"}

// GenLayout draws one separator per gap (len(tokens)+1 gaps).
func GenLayout(t *rapid.T, tokens []string) []string {
	seps := make([]string, len(tokens)+1)
	for i := range seps {
		kind := rapid.SampledFrom(sepKinds).Draw(t, "sep")
		body := rapid.SampledFrom(commentBodies).Draw(t, "cbody")
		if (i == 0 || i == len(tokens)) && kind == "nothing" {
			seps[i] = ""
			continue
		}
		seps[i] = sepOf(kind, body)
	}
	return seps
}

var keywords = map[string]bool{}

func init() {
	for _, k := range strings.Fields(`find replace with set to pattern matches transform function all skip take top last any
 whitespace digit upper lower letter line file word start end begin not at least most between and exactly maybe fewest named in or if
 then else debug return head tail loop continue break true false whole caseless`) {
		keywords[k] = true
	}
}

// Recase changes the letter case of keyword tokens.
func Recase(t *rapid.T, tokens []string) []string {
	out := make([]string, len(tokens))
	for i, tok := range tokens {
		out[i] = tok
		if !keywords[tok] {
			continue
		}
		switch rapid.IntRange(0, 3).Draw(t, "case") {
		case 1:
			out[i] = strings.ToUpper(tok)
		case 2:
			out[i] = strings.ToUpper(tok[:1]) + tok[1:]
		case 3:
			b := []byte(tok)
			for j := range b {
				if rapid.Bool().Draw(t, "cb") {
					b[j] = b[j] - 32
				}
			}
			out[i] = string(b)
		}
	}
	return out
}
