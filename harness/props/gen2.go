package props

// Full-program generator (C05, C08, C09, C15, C17): globals with generated
// predicates, transforms with generated bodies, find / replace commands with
// with-lists, regex literals, named loops, amount clauses.

import (
	"fmt"
	"strings"

	"pgregory.net/rapid"
)

var builtinNames = []string{"value", "matchNumber", "startOffset", "endOffset", "lineNumber", "columnNumber", "totalMatches", "filename"}

type FullOpts struct {
	Wide       bool // whole *, named loops, empty literals, regex
	Transforms bool
	MaxCmds    int
}

// captureNames collects the `= name` captures declared in body and in the
// set-patterns it references (they bind at run time like any other capture), in order.
func captureNames(body []*Node, globals ...Global) []string {
	var out []string
	gm := globalsMap(globals)
	seen := map[string]bool{}
	var walk func(n *Node)
	walk = func(n *Node) {
		if n == nil {
			return
		}
		if n.K == KCap {
			out = append(out, n.S)
		}
		if n.K == KGlobal && !seen[n.S] {
			seen[n.S] = true
			for _, k := range gm[n.S].Body {
				walk(k)
			}
		}
		for _, k := range n.Kids {
			walk(k)
		}
		walk(n.Body)
	}
	for _, n := range body {
		walk(n)
	}
	return out
}

// genTransform generates a well-typed, terminating transform body over match,
// matchLength and the given capture names (strings).
var transformBuiltins = []string{"startOffset", "endOffset", "totalMatches", "lineNumber", "columnNumber", "value", "matchNumber"}

func genTransform(t *rapid.T, caps []string) []Stmt {
	eg := &exprGen{t: t, vars: map[PType][]string{TString: append([]string{"match"}, caps...), TNumber: {"matchLength"}}}
	stmts := declareVars(eg)
	// state that must not survive from one with-item (or match) to the next: a
	// variable read before it is ever assigned (the empty string), and `match` itself
	if rapid.IntRange(0, 2).Draw(t, "leaky") == 0 {
		stmts = append(stmts, Stmt{K: "set", Name: "lk", E: Bin("+", Var("lk", TString), Str("k"))})
		eg.vars[TString] = append(eg.vars[TString], "lk")
	}
	if rapid.IntRange(0, 3).Draw(t, "builtin") == 0 {
		// the per-match built-ins are part of the environment a transform is run with;
		// whether they are strings or numbers there is documented nowhere, so they are
		// only used where both readings agree: on the right of a string concatenation
		b1 := rapid.SampledFrom(transformBuiltins).Draw(t, "builtin1")
		b2 := rapid.SampledFrom(transformBuiltins).Draw(t, "builtin2")
		stmts = append(stmts, Stmt{K: "set", Name: "bi", E: Bin("+", Bin("+", Bin("+", Str("<"), Var(b1, TString)), Str(":")), Var(b2, TString))})
		eg.vars[TString] = append(eg.vars[TString], "bi")
	}
	if rapid.IntRange(0, 3).Draw(t, "chop") == 0 {
		stmts = append(stmts, Stmt{K: "set", Name: "match", E: Un("tail", Var("match", TString))})
	}
	sg := &stmtGen{eg: eg, t: t, ctx: CtxTransform, loopFuel: 1}
	depth := rapid.IntRange(1, 3).Draw(t, "tdepth")
	stmts = append(stmts, sg.WellTyped(rapid.IntRange(0, 3).Draw(t, "tn"), depth, false)...)
	stmts = append(stmts, returnFor(eg, CtxTransform, depth))
	return stmts
}

func genPredicateFull(t *rapid.T) []Stmt {
	if rapid.Bool().Draw(t, "simplepred") {
		return genPredicate(t)
	}
	eg := &exprGen{t: t, vars: map[PType][]string{TString: {"match"}, TNumber: {"matchLength"}}}
	stmts := declareVars(eg)
	sg := &stmtGen{eg: eg, t: t, ctx: CtxPredicate, loopFuel: 1}
	depth := rapid.IntRange(1, 2).Draw(t, "pdepth")
	stmts = append(stmts, sg.WellTyped(rapid.IntRange(0, 2).Draw(t, "pn"), depth, false)...)
	stmts = append(stmts, returnFor(eg, CtxPredicate, depth))
	return stmts
}

func genAmount(t *rapid.T) []string {
	switch rapid.IntRange(0, 9).Draw(t, "amountkind") {
	case 0:
		return []string{"top", fmt.Sprint(rapid.IntRange(1, 3).Draw(t, "n"))}
	case 1:
		return []string{"take", fmt.Sprint(rapid.IntRange(0, 3).Draw(t, "n"))}
	case 2:
		return []string{"skip", fmt.Sprint(rapid.IntRange(0, 2).Draw(t, "n"))}
	case 3:
		return []string{"skip", fmt.Sprint(rapid.IntRange(0, 2).Draw(t, "n")), "take", fmt.Sprint(rapid.IntRange(0, 2).Draw(t, "m"))}
	case 4:
		return []string{"last", fmt.Sprint(rapid.IntRange(1, 3).Draw(t, "n"))}
	}
	return []string{"all"}
}

// GenFullProgram generates a complete program. It returns the program and the
// globals/body of its first search command (for text sampling).
func GenFullProgram(t *rapid.T, o FullOpts) (*Program, []Global, []*Node) {
	f := AllModelFeatures
	f.Wide = o.Wide
	depth := rapid.IntRange(1, 3).Draw(t, "depth")
	globals, body := GenBodyProgram(t, f, depth)
	for i := range globals {
		if len(globals[i].Pred) > 0 {
			globals[i].Pred = genPredicateFull(t)
		}
	}
	prog := &Program{Globals: globals}
	if o.Wide && rapid.IntRange(0, 5).Draw(t, "addregex") == 0 {
		body = append(body, &Node{K: KRegex, S: rapid.SampledFrom(smallRegexes).Draw(t, "regex")})
	}
	caps := captureNames(body, globals...)
	cmd := Command{Amount: genAmount(t), Body: body}
	if rapid.IntRange(0, 2).Draw(t, "replace") == 0 {
		cmd.Replace = true
		nt := 0
		if o.Transforms {
			nt = rapid.IntRange(0, 2).Draw(t, "ntransforms")
		}
		var tnames []string
		for i := 0; i < nt; i++ {
			name := fmt.Sprintf("f%d", i+1)
			prog.Transforms = append(prog.Transforms, Transform{Name: name, Body: genTransform(t, caps)})
			tnames = append(tnames, name)
		}
		for i := rapid.IntRange(1, 4).Draw(t, "nwith"); i > 0; i-- {
			cmd.With = append(cmd.With, genWithItem(t, caps, tnames))
		}
	}
	prog.Commands = append(prog.Commands, cmd)
	maxc := o.MaxCmds
	if maxc > 1 && rapid.IntRange(0, 3).Draw(t, "morecmds") == 0 {
		// further commands: a fresh small one, the same body again (every command has
		// its own name scope, so the same captures, subroutines and loop names are
		// fine) as a find or a replace, or the declared definitions once more
		for n := rapid.IntRange(1, 2).Draw(t, "nmore"); n > 0; n-- {
			var c Command
			switch rapid.IntRange(0, 3).Draw(t, "morekind") {
			case 0:
				g2 := &gctx{t: t, f: Features{NoNot: false}, allowDef: true, loopProd: 1}
				c = Command{Amount: genAmount(t), Body: []*Node{g2.node(1)}}
			case 1, 2:
				c = Command{Amount: genAmount(t), Body: body}
			default:
				var b2 []*Node
				for _, g := range globals {
					if rapid.Bool().Draw(t, "useglobal") {
						b2 = append(b2, &Node{K: KGlobal, S: g.Name})
					}
				}
				b2 = append(b2, &Node{K: KLit, S: rapid.SampledFrom([]string{"a", "b", " "}).Draw(t, "morelit")})
				c = Command{Amount: genAmount(t), Body: b2}
			}
			if rapid.Bool().Draw(t, "morereplace") {
				c.Replace = true
				c.With = []WithItem{{Kind: 0, S: "<"}, {Kind: 1, S: "value"}, {Kind: 0, S: ">"}}
			}
			prog.Commands = append(prog.Commands, c)
		}
	}
	return prog, globals, body
}

func genWithItem(t *rapid.T, caps, transforms []string) WithItem {
	kinds := []string{"string", "string", "builtin", "undefined"}
	if len(caps) > 0 {
		kinds = append(kinds, "capture", "capture")
	}
	if len(transforms) > 0 {
		kinds = append(kinds, "transform", "transform")
	}
	switch rapid.SampledFrom(kinds).Draw(t, "withkind") {
	case "string":
		return WithItem{Kind: 0, S: rapid.SampledFrom([]string{"", "x", "<", ">", "-", "é", "\n", "\"q\""}).Draw(t, "withs")}
	case "builtin":
		return WithItem{Kind: 1, S: rapid.SampledFrom(builtinNames).Draw(t, "builtin")}
	case "capture":
		return WithItem{Kind: 1, S: rapid.SampledFrom(caps).Draw(t, "withcap")}
	case "transform":
		return WithItem{Kind: 1, S: rapid.SampledFrom(transforms).Draw(t, "withf")}
	default:
		return WithItem{Kind: 1, S: rapid.SampledFrom([]string{"nosuch", "undefinedName"}).Draw(t, "undef")}
	}
}

// ---------------------------------------------------------------- token soup

var soupVocabulary []string

func init() {
	for k := range keywords {
		soupVocabulary = append(soupVocabulary, k)
	}
	// deterministic order
	sortStrings(soupVocabulary)
	soupVocabulary = append(soupVocabulary,
		"(", ")", "{", "}", ",", "=", "==", "!=", "<", ">", "<=", ">=", "+", "-", "*", "/", "%", ":=", "!", ":",
		"'a'", "\"b\"", "'\\n'", "'\\x41'", "'\\x4'", "''", "'it\\'s'", "0", "1", "2", "10", "x", "y1", "myVar",
		"@/a+/", "@/(a|b)*c/", "@/[a-c]{2,3}/", "@/\\d\\1/", "-- c\n", "--( c )--", "--", "'unterminated", "@/unterminated", "\\",
		"'\\x\u0663\u0664'", "\"\\x4\u096a\"", "\u0663", "x\u0663", "'\u00e9'", "@/\u00e9+/")
}

func sortStrings(s []string) {
	for i := 1; i < len(s); i++ {
		for j := i; j > 0 && s[j] < s[j-1]; j-- {
			s[j], s[j-1] = s[j-1], s[j]
		}
	}
}

func GenTokenSoup(t *rapid.T) string {
	toks := rapid.SliceOfN(rapid.SampledFrom(soupVocabulary), 1, 14).Draw(t, "soup")
	return strings.Join(toks, " ")
}

var regexAlphabet = []string{"(", ")", "[", "]", "{", "}", "|", "*", "+", "?", "\\", "^", "$", ".", "-", ",", "<", ">", "=", "!", ":", "k", "d", "D", "s", "S", "w", "W", "b", "B", "0", "1", "2", "9", "a", "b", "c", "(?:", "(?<n>", "\\k<n>", "\\1", "{2}", "{1,}", "{1,2}"}

func GenRegexBody(t *rapid.T) string {
	parts := rapid.SliceOfN(rapid.SampledFrom(regexAlphabet), 0, 10).Draw(t, "rebody")
	return strings.Join(parts, "")
}

// TokenMutations returns every single-token deletion, duplication and adjacent
// swap of tokens.
func TokenMutations(tokens []string) [][]string {
	var out [][]string
	n := len(tokens)
	for i := 0; i < n; i++ {
		del := append(append([]string{}, tokens[:i]...), tokens[i+1:]...)
		out = append(out, del)
		dup := append(append(append([]string{}, tokens[:i+1]...), tokens[i]), tokens[i+1:]...)
		out = append(out, dup)
		if i+1 < n {
			sw := append([]string{}, tokens...)
			sw[i], sw[i+1] = sw[i+1], sw[i]
			out = append(out, sw)
		}
	}
	return out
}
