package props

// Second, fully independent oracle for the regular subset: translation of the
// pattern IR to a Go regular expression by the documented Regex-to-Vore table,
// evaluated position by position (Go's leftmost-first semantics is backtracking
// priority).

import (
	"fmt"
	"regexp"
	"strings"
)

func classSet(class string) (string, bool) {
	switch class {
	case "whitespace":
		return ` \t\n\r`, true
	case "digit":
		return `0-9`, true
	case "upper":
		return `A-Z`, true
	case "lower":
		return `a-z`, true
	case "letter":
		return `A-Za-z`, true
	}
	return "", false
}

const never = `[^\x00-\x{10FFFF}]`

func setEscape(c byte) string {
	switch c {
	case '\\', ']', '[', '^', '-':
		return `\` + string(c)
	case '\n':
		return `\n`
	case '\t':
		return `\t`
	case '\r':
		return `\r`
	}
	return string(c)
}

func otherCase(c byte) (byte, bool) {
	if c >= 'a' && c <= 'z' {
		return c - 32, true
	}
	if c >= 'A' && c <= 'Z' {
		return c + 32, true
	}
	return 0, false
}

// caselessRegex spells an ASCII case-insensitive literal as explicit classes.
// (Go's regexp mis-handles case folding under alternation: in go1.23
// regexp/syntax turns both `(?i:a)` and `[aA]` into a fold-case literal, and its
// common-prefix factoring compares literals without the fold flag, so
// `(?i:a)b|A` and `[aA]b|A` match "a" - found twice by the thorough tier as an
// oracle disagreement. A third class member that no generated text contains
// (U+10FFFF) keeps the class a class.)
func caselessRegex(s string) string {
	var b strings.Builder
	for i := 0; i < len(s); i++ {
		c := s[i]
		if oc, ok := otherCase(c); ok {
			b.WriteString("[" + string([]byte{c, oc}) + `\x{10FFFF}]`)
		} else {
			b.WriteString(regexp.QuoteMeta(string([]byte{c})))
		}
	}
	return b.String()
}

// Nullable reports whether n can match the empty string (conservatively true for
// references and calls).
func Nullable(n *Node, globals map[string]Global) bool {
	switch n.K {
	case KLit:
		return len(n.S) == 0
	case KClass, KIn:
		return false
	case KAnchor, KRef, KCall, KRegex, KWhole:
		return true
	case KSeq, KSub:
		for _, k := range n.Kids {
			if !Nullable(k, globals) {
				return false
			}
		}
		return true
	case KLoop:
		return n.Min == 0 || Nullable(n.Body, globals)
	case KOr:
		for _, k := range n.Kids {
			if Nullable(k, globals) {
				return true
			}
		}
		return false
	case KCap:
		return Nullable(n.Body, globals)
	case KGlobal:
		g, ok := globals[n.S]
		if !ok {
			return true
		}
		for _, k := range g.Body {
			if !Nullable(k, globals) {
				return false
			}
		}
		return true
	}
	return true
}

// goRegexWrapAlts makes ToGoRegex put every alternative in a capture group, which
// switches off regexp/syntax's common-prefix factoring of alternations (the source
// of the go1.23 bugs above). Used for a second opinion when the plain translation
// disagrees with the reference matcher.
var goRegexWrapAlts bool

func wrapAlts(alts []string) []string {
	if !goRegexWrapAlts {
		return alts
	}
	out := make([]string, len(alts))
	for i, a := range alts {
		out[i] = "(" + a + ")"
	}
	return out
}

// ToGoRegexSafe is ToGoRegex with every alternative wrapped in a capture group.
func ToGoRegexSafe(n *Node, globals map[string]Global) (string, bool) {
	goRegexWrapAlts = true
	defer func() { goRegexWrapAlts = false }()
	return ToGoRegex(n, globals)
}

// ToGoRegex translates n; ok=false when n is outside the regular subset.
func ToGoRegex(n *Node, globals map[string]Global) (string, bool) {
	switch n.K {
	case KLit:
		if len(n.S) == 0 {
			return "", false
		}
		if n.Not {
			if len(n.S) != 1 {
				return "", false
			}
			return "[^" + setEscape(n.S[0]) + "]", true
		}
		if n.Caseless {
			return "(?:" + caselessRegex(n.S) + ")", true
		}
		return "(?:" + regexp.QuoteMeta(n.S) + ")", true
	case KClass:
		if n.Class == "any" {
			if n.Not {
				return never, true
			}
			return `(?s:.)`, true
		}
		set, _ := classSet(n.Class)
		if n.Not {
			return "[^" + set + "]", true
		}
		return "[" + set + "]", true
	case KAnchor:
		if n.Not {
			return "", false
		}
		switch n.Class {
		case "file start":
			return `\A`, true
		case "file end":
			return `\z`, true
		case "line start":
			return `(?m:^)`, true
		case "line end":
			return `(?m:$)`, true
		}
		return "", false
	case KIn:
		if n.Not {
			var b strings.Builder
			b.WriteString("[^")
			for _, it := range n.Items {
				switch it.Kind {
				case 0:
					if len(it.S) != 1 {
						return "", false
					}
					b.WriteString(setEscape(it.S[0]))
					if oc, ok := otherCase(it.S[0]); ok && it.Caseless {
						b.WriteString(setEscape(oc))
					}
				case 1:
					b.WriteString(setEscape(it.From[0]) + "-" + setEscape(it.To[0]))
				default:
					if it.Class == "any" {
						return never, true
					}
					set, _ := classSet(it.Class)
					b.WriteString(set)
				}
			}
			b.WriteString("]")
			return b.String(), true
		}
		alts := []string{}
		for _, it := range n.Items {
			switch it.Kind {
			case 0:
				if len(it.S) == 0 {
					return "", false
				}
				q := regexp.QuoteMeta(it.S)
				if it.Caseless {
					q = caselessRegex(it.S)
				}
				alts = append(alts, q)
			case 1:
				alts = append(alts, "["+setEscape(it.From[0])+"-"+setEscape(it.To[0])+"]")
			default:
				if it.Class == "any" {
					alts = append(alts, `(?s:.)`)
				} else {
					set, _ := classSet(it.Class)
					alts = append(alts, "["+set+"]")
				}
			}
		}
		return "(?:" + strings.Join(wrapAlts(alts), "|") + ")", true
	case KSeq, KSub:
		var b strings.Builder
		b.WriteString("(?:")
		for _, k := range n.Kids {
			s, ok := ToGoRegex(k, globals)
			if !ok {
				return "", false
			}
			b.WriteString(s)
		}
		b.WriteString(")")
		return b.String(), true
	case KLoop:
		if n.Name != "" || Nullable(n.Body, globals) {
			return "", false
		}
		body, ok := ToGoRegex(n.Body, globals)
		if !ok {
			return "", false
		}
		var q string
		if n.Max == -1 {
			q = fmt.Sprintf("{%d,}", n.Min)
		} else {
			q = fmt.Sprintf("{%d,%d}", n.Min, n.Max)
		}
		if n.Fewest && n.Min != n.Max {
			q += "?"
		}
		return "(?:" + body + ")" + q, true
	case KOr:
		alts := []string{}
		for _, k := range n.Kids {
			s, ok := ToGoRegex(k, globals)
			if !ok {
				return "", false
			}
			alts = append(alts, s)
		}
		return "(?:" + strings.Join(wrapAlts(alts), "|") + ")", true
	case KCap:
		s, ok := ToGoRegex(n.Body, globals)
		if !ok {
			return "", false
		}
		return "(?:" + s + ")", true
	case KGlobal:
		g, ok := globals[n.S]
		if !ok || len(g.Pred) > 0 {
			return "", false
		}
		var b strings.Builder
		b.WriteString("(?:")
		for _, k := range g.Body {
			s, ok := ToGoRegex(k, globals)
			if !ok {
				return "", false
			}
			b.WriteString(s)
		}
		b.WriteString(")")
		return b.String(), true
	}
	return "", false
}

// GoRegexFindAll evaluates re position by position with the vore scan rule.
func GoRegexFindAll(re string, text string) ([]Span, error) {
	var spans []Span
	pos := 0
	for pos < len(text) {
		rx, err := regexp.Compile(fmt.Sprintf(`\A(?s:.{%d})(%s)`, pos, re))
		if err != nil {
			return nil, err
		}
		loc := rx.FindStringSubmatchIndex(text)
		if loc != nil && loc[3] > pos {
			spans = append(spans, Span{Start: pos, End: loc[3]})
			pos = loc[3]
		} else {
			pos++
		}
	}
	return spans, nil
}
