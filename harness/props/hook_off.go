//go:build !verif

package props

const hookEnabled = false

func setStepLimit(n int64)       {}
func vmSteps() int64             { return 0 }
func isBudgetPanic(r any) bool   { return false }
func abortRun()                  {}
func vmProgress() (int64, int64) { return 0, 0 }
