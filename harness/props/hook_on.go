//go:build verif

package props

import "github.com/jmeaster30/vore/libvore/engine"

const hookEnabled = true

func setStepLimit(n int64) { engine.VerifSetStepLimit(n) }
func vmSteps() int64       { return engine.VerifSteps() }
func isBudgetPanic(r any) bool {
	_, ok := r.(engine.VerifBudgetExceeded)
	return ok
}
func abortRun()                  { engine.VerifAbort() }
func vmProgress() (int64, int64) { return engine.VerifProgress() }
