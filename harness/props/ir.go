package props

// Pattern IR, its token-level renderer and layout functions.
//
// Programs are generated as IR trees, rendered to token sequences and only then
// laid out as text, so every check can vary layout and C15 gets its gaps for free.

import (
	"fmt"
	"strings"
)

type Kind int

const (
	KLit    Kind = iota // string literal (S, Not, Caseless)
	KClass              // consuming character class (Class, Not)
	KAnchor             // zero-width anchor (Class, Not)
	KWhole              // whole file / whole line / whole word (Class, Not) – invariant checks only
	KIn                 // in / not in list (Items, Not)
	KSeq                // group ( ... )
	KLoop               // Min, Max (-1 = unbounded), Fewest, Name, Body
	KOr                 // Kids joined by `or`
	KCap                // Body = S
	KRef                // back-reference to capture S
	KSub                // { Kids } = S
	KCall               // call of inline subroutine S
	KGlobal             // reference to `set S to pattern`
	KRegex              // @/S/ – invariant checks only
)

type Item struct {
	Kind     int    `json:"k"` // 0 string, 1 range, 2 class
	S        string `json:"s,omitempty"`
	Caseless bool   `json:"cl,omitempty"`
	From     string `json:"from,omitempty"`
	To       string `json:"to,omitempty"`
	Class    string `json:"class,omitempty"`
}

type Node struct {
	K        Kind    `json:"k"`
	S        string  `json:"s,omitempty"`
	Not      bool    `json:"not,omitempty"`
	Caseless bool    `json:"cl,omitempty"`
	Class    string  `json:"class,omitempty"`
	Items    []Item  `json:"items,omitempty"`
	Kids     []*Node `json:"kids,omitempty"`
	Min      int     `json:"min,omitempty"`
	Max      int     `json:"max,omitempty"`
	Fewest   bool    `json:"fewest,omitempty"`
	Name     string  `json:"name,omitempty"`
	Body     *Node   `json:"body,omitempty"`
}

type Global struct {
	Name string  `json:"name"`
	Body []*Node `json:"body"`
	Pred []Stmt  `json:"pred,omitempty"`
}

type Transform struct {
	Name string `json:"name"`
	Body []Stmt `json:"body"`
}

type WithItem struct {
	Kind int    `json:"k"` // 0 string, 1 identifier (capture, built-in, transform, undefined)
	S    string `json:"s"`
}

type Command struct {
	Replace bool       `json:"replace,omitempty"`
	Amount  []string   `json:"amount"` // tokens, e.g. ["all"], ["skip","1","take","2"]
	Body    []*Node    `json:"body"`
	With    []WithItem `json:"with,omitempty"`
}

type Program struct {
	Globals    []Global    `json:"globals,omitempty"`
	Transforms []Transform `json:"transforms,omitempty"`
	Commands   []Command   `json:"commands"`
}

// ---------------------------------------------------------------- strings

// Quote renders s as a single-quoted vore string literal denoting exactly s.
func Quote(s string) string {
	return quoteWith(s, '\'')
}

func quoteWith(s string, q byte) string {
	var b strings.Builder
	b.WriteByte(q)
	for i := 0; i < len(s); i++ {
		c := s[i]
		switch {
		case c == q || c == '\\':
			b.WriteByte('\\')
			b.WriteByte(c)
		case c == '\n':
			b.WriteString("\\n")
		case c == '\r':
			b.WriteString("\\r")
		case c == '\t':
			b.WriteString("\\t")
		case c < 0x20 || c == 0x7f:
			fmt.Fprintf(&b, "\\x%02x", c)
		default:
			// bytes >= 0x80 are written raw (the source is read as UTF-8; generators
			// only put valid UTF-8 sequences into literals)
			b.WriteByte(c)
		}
	}
	b.WriteByte(q)
	return b.String()
}

// ---------------------------------------------------------------- tokens

func (it Item) Tokens() []string {
	switch it.Kind {
	case 0:
		if it.Caseless {
			return []string{"caseless", Quote(it.S)}
		}
		return []string{Quote(it.S)}
	case 1:
		return []string{Quote(it.From), "to", Quote(it.To)}
	default:
		return []string{it.Class}
	}
}

func isAtomKind(k Kind) bool {
	switch k {
	case KLit, KClass, KAnchor, KWhole, KRef, KCall, KGlobal:
		return true
	}
	return false
}

// LiteralTokens renders n in a position where the grammar wants a "literal"
// (loop body, operand of `or`, body of a capture): atoms and groups as they
// are, everything else wrapped in a group.
func (n *Node) LiteralTokens() []string {
	if isAtomKind(n.K) || n.K == KSeq {
		return n.Tokens()
	}
	out := []string{"("}
	out = append(out, n.Tokens()...)
	return append(out, ")")
}

func (n *Node) loopHead() []string {
	switch {
	case n.Min == 0 && n.Max == 1 && n.Name == "":
		return []string{"maybe"}
	case n.Max == -1:
		return []string{"at", "least", fmt.Sprint(n.Min)}
	case n.Min == n.Max:
		return []string{"exactly", fmt.Sprint(n.Min)}
	case n.Min == 0:
		return []string{"at", "most", fmt.Sprint(n.Max)}
	default:
		return []string{"between", fmt.Sprint(n.Min), "and", fmt.Sprint(n.Max)}
	}
}

func (n *Node) Tokens() []string {
	switch n.K {
	case KLit:
		out := []string{}
		if n.Not {
			out = append(out, "not")
		}
		if n.Caseless {
			out = append(out, "caseless")
		}
		return append(out, Quote(n.S))
	case KClass, KAnchor, KWhole:
		out := []string{}
		if n.Not {
			out = append(out, "not")
		}
		return append(out, strings.Fields(n.Class)...)
	case KIn:
		out := []string{}
		if n.Not {
			out = append(out, "not")
		}
		out = append(out, "in")
		for i, it := range n.Items {
			if i > 0 {
				out = append(out, ",")
			}
			out = append(out, it.Tokens()...)
		}
		return out
	case KSeq:
		out := []string{"("}
		for _, k := range n.Kids {
			out = append(out, k.Tokens()...)
		}
		return append(out, ")")
	case KLoop:
		out := n.loopHead()
		out = append(out, n.Body.LiteralTokens()...)
		if n.Fewest && n.Min != n.Max {
			out = append(out, "fewest")
		}
		if n.Name != "" {
			out = append(out, "named", n.Name)
		}
		return out
	case KOr:
		out := []string{}
		for i, k := range n.Kids {
			if i > 0 {
				out = append(out, "or")
			}
			out = append(out, k.LiteralTokens()...)
		}
		return out
	case KCap:
		out := n.Body.LiteralTokens()
		return append(out, "=", n.S)
	case KRef, KCall, KGlobal:
		return []string{n.S}
	case KSub:
		out := []string{"{"}
		for _, k := range n.Kids {
			out = append(out, k.Tokens()...)
		}
		return append(out, "}", "=", n.S)
	case KRegex:
		return []string{"@/" + n.S + "/"}
	}
	panic(fmt.Sprintf("bad kind %d", n.K))
}

func bodyTokens(body []*Node) []string {
	out := []string{}
	for _, n := range body {
		out = append(out, n.Tokens()...)
	}
	return out
}

func (g Global) Tokens() []string {
	out := []string{"set", g.Name, "to", "pattern"}
	out = append(out, bodyTokens(g.Body)...)
	if len(g.Pred) > 0 {
		out = append(out, "begin")
		out = append(out, StmtsTokens(g.Pred, false)...)
		out = append(out, "end")
	}
	return out
}

func (t Transform) Tokens() []string {
	out := []string{"set", t.Name, "to", "transform"}
	out = append(out, StmtsTokens(t.Body, false)...)
	return append(out, "end")
}

func (c Command) Tokens() []string {
	out := []string{"find"}
	if c.Replace {
		out = []string{"replace"}
	}
	out = append(out, c.Amount...)
	out = append(out, bodyTokens(c.Body)...)
	if c.Replace {
		out = append(out, "with")
		for _, w := range c.With {
			if w.Kind == 0 {
				out = append(out, Quote(w.S))
			} else {
				out = append(out, w.S)
			}
		}
	}
	return out
}

func (p *Program) Tokens() []string {
	out := []string{}
	for _, g := range p.Globals {
		out = append(out, g.Tokens()...)
	}
	for _, t := range p.Transforms {
		out = append(out, t.Tokens()...)
	}
	for _, c := range p.Commands {
		out = append(out, c.Tokens()...)
	}
	return out
}

// Source renders the program with single blanks between tokens.
func (p *Program) Source() string { return strings.Join(p.Tokens(), " ") }

// FindAll is the common single-command program `find all <body>`.
func FindAll(body ...*Node) *Program {
	return &Program{Commands: []Command{{Amount: []string{"all"}, Body: body}}}
}

// ---------------------------------------------------------------- layout

func isWordByte(c byte) bool {
	return c >= 'a' && c <= 'z' || c >= 'A' && c <= 'Z' || c >= '0' && c <= '9' || c >= 0x80
}

func allDigits(s string) bool {
	for i := 0; i < len(s); i++ {
		if s[i] < '0' || s[i] > '9' {
			return false
		}
	}
	return s != ""
}

// needsSeparator reports whether two adjacent tokens would lex differently when
// written with nothing between them.
func needsSeparator(a, b string) bool {
	if a == "" || b == "" {
		return false
	}
	la, fb := a[len(a)-1], b[0]
	if allDigits(a) && !(fb >= '0' && fb <= '9') && fb < 0x80 {
		// a number ends at the first character that is not a digit: `3with`, `1digit`
		// are two tokens each (whitespace is needed only to separate adjacent words)
		return false
	}
	if isWordByte(la) && isWordByte(fb) {
		return true
	}
	// operator pairs that would fuse into another token
	switch {
	case la == '-' && fb == '-': // comment start
		return true
	case (la == '=' || la == '!' || la == '<' || la == '>' || la == ':') && fb == '=':
		return true
	case la == '@' && fb == '/':
		return true
	}
	return false
}

// Layout joins tokens with the given separators: seps[i] goes before tokens[i],
// seps[len(tokens)] after the last token. An empty separator is replaced by a
// blank where the two tokens need one.
func Layout(tokens []string, seps []string) string {
	var b strings.Builder
	for i, t := range tokens {
		sep := ""
		if i < len(seps) {
			sep = seps[i]
		}
		if i > 0 && sep == "" && needsSeparator(tokens[i-1], t) {
			sep = " "
		}
		// a comment must not be glued to a preceding '-' (it would start earlier)
		if i > 0 && strings.HasPrefix(sep, "--") && strings.HasSuffix(tokens[i-1], "-") {
			sep = " " + sep
		}
		b.WriteString(sep)
		b.WriteString(t)
	}
	if len(seps) > len(tokens) {
		sep := seps[len(tokens)]
		if len(tokens) > 0 && strings.HasPrefix(sep, "--") && strings.HasSuffix(tokens[len(tokens)-1], "-") {
			sep = " " + sep
		}
		b.WriteString(sep)
	}
	return b.String()
}
