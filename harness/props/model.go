package props

// Reference semantics of the search language (DESIGN.md section 4): a
// continuation-passing backtracking matcher over the pattern IR. It shares no code
// with the implementation (no bytecode, no program counters, no snapshots).

import (
	"strconv"
	"strings"
)

// binding is a persistent list of variable bindings (newest first).
type binding struct {
	parent *binding
	name   string
	str    string
	nested map[string]any // non-nil: the result of a named loop
}

// iterNode is a persistent list of the completed iterations of a named loop.
type iterNode struct {
	parent *iterNode
	idx    int
	b      *binding
}

// frame is an open named loop. Captures completed while a frame is open are
// stored in its current iteration, not in the global environment.
type frame struct {
	parent *frame
	name   string
	iter   int
	done   *iterNode
	cur    *binding
}

// Env is immutable and handed from continuation to continuation, so a binding made
// on an abandoned path disappears with it by construction.
type Env struct {
	vars *binding
	fr   *frame
}

// Get looks a name up for a back-reference: only the global environment is
// visible (what a capture stored inside a named loop means to a back-reference is
// undocumented; the generators never refer to such captures).
func (e Env) Get(name string) (string, bool) {
	for p := e.vars; p != nil; p = p.parent {
		if p.name == name && p.nested == nil {
			return p.str, true
		}
	}
	return "", false
}

func (e Env) bound(name string) bool {
	list := e.vars
	if e.fr != nil {
		list = e.fr.cur
	}
	for p := list; p != nil; p = p.parent {
		if p.name == name {
			return true
		}
	}
	return false
}

func (e Env) bind(b *binding) Env {
	if e.fr != nil {
		f := *e.fr
		b.parent = f.cur
		f.cur = b
		return Env{vars: e.vars, fr: &f}
	}
	b.parent = e.vars
	return Env{vars: b, fr: nil}
}

func bindingsToMaps(b *binding) (flat map[string]string, nested map[string]any) {
	flat, nested = map[string]string{}, map[string]any{}
	var rec func(p *binding)
	rec = func(p *binding) {
		if p == nil {
			return
		}
		rec(p.parent)
		if p.nested != nil {
			delete(flat, p.name)
			nested[p.name] = p.nested
		} else {
			delete(nested, p.name)
			flat[p.name] = p.str
		}
	}
	rec(b)
	return
}

func bindingsToAny(b *binding) map[string]any {
	flat, nested := bindingsToMaps(b)
	out := map[string]any{}
	for k, v := range flat {
		out[k] = v
	}
	for k, v := range nested {
		out[k] = v
	}
	return out
}

// Map returns the flat string variables of the global environment.
func (e Env) Map() map[string]string {
	flat, _ := bindingsToMaps(e.vars)
	return flat
}

// Nested returns the named-loop results of the global environment.
func (e Env) Nested() map[string]any {
	_, nested := bindingsToMaps(e.vars)
	return nested
}

type Span struct {
	Start  int               `json:"start"`
	End    int               `json:"end"`
	Vars   map[string]string `json:"vars,omitempty"`
	Nested map[string]any    `json:"nested,omitempty"` // named loops: name -> iteration -> bindings
}

type ModelBudget struct{}

type Model struct {
	text    string
	subs    map[string]*Node
	globals map[string]Global
	Steps   int
	Budget  int
	// statistics of the evaluation
	Backtracks   int  // alternatives / iterations abandoned after a later failure
	DontCare     bool // evaluation touched a cell the documents leave open
	AbandonedCap int  // captures completed on a path that was later abandoned
	Rebinds      int  // a name bound while already bound
	capDepth     int
	ProcBudget   int
}

type cont func(pos int, e Env) bool

// trackUnbound (C14): set while a model evaluation should report references that
// were evaluated before their group was bound.
var trackUnbound *refTracker

func isWord(c byte) bool {
	return c >= 'a' && c <= 'z' || c >= 'A' && c <= 'Z' || c >= '0' && c <= '9' || c == '_'
}

func classMatch(class string, c byte) bool {
	switch class {
	case "any":
		return true
	case "whitespace":
		return c == ' ' || c == '\t' || c == '\n' || c == '\r'
	case "digit":
		return c >= '0' && c <= '9'
	case "upper":
		return c >= 'A' && c <= 'Z'
	case "lower":
		return c >= 'a' && c <= 'z'
	case "letter":
		return c >= 'a' && c <= 'z' || c >= 'A' && c <= 'Z'
	}
	panic("class " + class)
}

// caselessEqual: `caseless` compares the bytes the literal is long with the
// literal under Unicode simple case folding (the standard library's
// strings.EqualFold - not vore code). The documents do not say which letters fold;
// this is what callers observe: 'é' finds 'É', and folds that change the byte
// length ('ſ' / 's', the Kelvin sign) are never seen because the text segment
// compared has the literal's length.
func caselessEqual(seg, lit string) bool {
	return strings.EqualFold(seg, lit)
}

func asciiLower(s string) string {
	b := []byte(s)
	for i, c := range b {
		if c >= 'A' && c <= 'Z' {
			b[i] = c + 32
		}
	}
	return string(b)
}

func (m *Model) anchor(name string, pos int) bool {
	t := m.text
	n := len(t)
	switch name {
	case "file start":
		return pos == 0
	case "file end":
		return pos == n
	case "line start":
		return pos == 0 || t[pos-1] == '\n'
	case "line end":
		return pos == n || t[pos] == '\n' || (pos+1 < n && t[pos] == '\r' && t[pos+1] == '\n')
	case "word start":
		if pos == n {
			m.DontCare = true
			return true
		}
		if pos == 0 {
			return isWord(t[pos])
		}
		return isWord(t[pos]) && !isWord(t[pos-1])
	case "word end":
		if pos == 0 {
			m.DontCare = true
			return true
		}
		if pos == n {
			if !isWord(t[pos-1]) {
				m.DontCare = true
			}
			return true
		}
		return !isWord(t[pos]) && isWord(t[pos-1])
	}
	panic("anchor " + name)
}

func (m *Model) itemMatch(it Item, pos int) (int, bool) {
	t := m.text
	switch it.Kind {
	case 0:
		if pos+len(it.S) > len(t) || len(it.S) == 0 {
			return 0, false
		}
		seg := t[pos : pos+len(it.S)]
		if seg == it.S || (it.Caseless && caselessEqual(seg, it.S)) {
			return pos + len(it.S), true
		}
		return 0, false
	case 1:
		if pos >= len(t) {
			return 0, false
		}
		if t[pos] >= it.From[0] && t[pos] <= it.To[0] {
			return pos + 1, true
		}
		return 0, false
	default:
		if pos >= len(t) {
			return 0, false
		}
		if classMatch(it.Class, t[pos]) {
			return pos + 1, true
		}
		return 0, false
	}
}

func (m *Model) tick() {
	m.Steps++
	if m.Steps > m.Budget {
		panic(ModelBudget{})
	}
}

func (m *Model) match(n *Node, pos int, e Env, k cont) bool {
	m.tick()
	t := m.text
	switch n.K {
	case KLit:
		l := len(n.S)
		if l == 0 || pos+l > len(t) {
			return false
		}
		seg := t[pos : pos+l]
		eq := seg == n.S || (n.Caseless && caselessEqual(seg, n.S))
		if eq != n.Not {
			return k(pos+l, e)
		}
		return false
	case KClass:
		if n.Class == "any" && n.Not {
			return false
		}
		if pos >= len(t) {
			return false
		}
		if classMatch(n.Class, t[pos]) != n.Not {
			return k(pos+1, e)
		}
		return false
	case KAnchor:
		if m.anchor(n.Class, pos) != n.Not {
			return k(pos, e)
		}
		return false
	case KIn:
		if !n.Not {
			for _, it := range n.Items {
				if p2, ok := m.itemMatch(it, pos); ok {
					if k(p2, e) {
						return true
					}
					m.Backtracks++
				}
			}
			return false
		}
		for _, it := range n.Items {
			if _, ok := m.itemMatch(it, pos); ok {
				return false
			}
		}
		if pos >= len(t) {
			return false
		}
		return k(pos+1, e)
	case KSeq:
		return m.seq(n.Kids, 0, pos, e, k)
	case KSub:
		return m.seq(n.Kids, 0, pos, e, k)
	case KLoop:
		return m.loop(n, 0, pos, e, k)
	case KOr:
		for _, alt := range n.Kids {
			if m.match(alt, pos, e, k) {
				return true
			}
			m.Backtracks++
		}
		return false
	case KCap:
		return m.match(n.Body, pos, e, func(p2 int, e2 Env) bool {
			if e2.bound(n.S) {
				m.Rebinds++
			}
			if k(p2, e2.bind(&binding{name: n.S, str: t[pos:p2]})) {
				return true
			}
			m.AbandonedCap++
			return false
		})
	case KRef:
		v, ok := e.Get(n.S)
		if !ok {
			if trackUnbound != nil {
				trackUnbound.unboundRef = true
			}
			return false
		}
		if pos+len(v) > len(t) || t[pos:pos+len(v)] != v {
			return false
		}
		return k(pos+len(v), e)
	case KCall:
		sub := m.subs[n.S]
		return m.seq(sub.Kids, 0, pos, e, k)
	case KGlobal:
		g := m.globals[n.S]
		return m.seq(g.Body, 0, pos, e, func(p2 int, e2 Env) bool {
			if len(g.Pred) > 0 {
				if !m.pred(g.Pred, t[pos:p2]) {
					m.Backtracks++
					return false
				}
			}
			return k(p2, e2)
		})
	}
	panic("model: unsupported kind")
}

func (m *Model) pred(stmts []Stmt, sub string) bool {
	env := map[string]Value{"match": VS(sub), "matchLength": VN(len(sub))}
	budget := m.ProcBudget
	if budget == 0 {
		budget = 10000
	}
	v, returned := Exec(stmts, env, &budget)
	if !returned {
		// falling off the end of a predicate has no documented meaning
		m.DontCare = true
		return true
	}
	return v.AsBool()
}

func (m *Model) seq(kids []*Node, i int, pos int, e Env, k cont) bool {
	if i == len(kids) {
		return k(pos, e)
	}
	return m.match(kids[i], pos, e, func(p2 int, e2 Env) bool {
		return m.seq(kids, i+1, p2, e2, k)
	})
}

// loop is the entry of a loop: a named loop opens a frame and publishes its
// result when it is left; the iterations themselves are run by loopIter.
func (m *Model) loop(n *Node, i int, pos int, e Env, k cont) bool {
	if n.Name == "" {
		return m.loopIter(n, i, pos, e, k)
	}
	// entering a named loop: captures now go to its current iteration
	e = Env{vars: e.vars, fr: &frame{parent: e.fr, name: n.Name}}
	exit := func(p2 int, e2 Env) bool {
		// leaving the loop: publish name -> {iteration -> bindings} in the enclosing scope
		f := e2.fr
		res := map[string]any{}
		for it := f.done; it != nil; it = it.parent {
			if it.b != nil {
				res[strconv.Itoa(it.idx)] = bindingsToAny(it.b)
			}
		}
		if f.cur != nil {
			res[strconv.Itoa(f.iter)] = bindingsToAny(f.cur)
		}
		outer := Env{vars: e2.vars, fr: f.parent}
		return k(p2, outer.bind(&binding{name: n.Name, nested: res}))
	}
	return m.loopIter(n, i, pos, e, exit)
}

func (m *Model) loopIter(n *Node, i int, pos int, e Env, k cont) bool {
	m.tick()
	next := func(e2 Env) Env {
		if n.Name == "" {
			return e2
		}
		// iteration boundary of a named loop
		f := *e2.fr
		f.done = &iterNode{parent: f.done, idx: f.iter, b: f.cur}
		f.iter++
		f.cur = nil
		return Env{vars: e2.vars, fr: &f}
	}
	if i < n.Min {
		return m.match(n.Body, pos, e, func(p2 int, e2 Env) bool {
			return m.loopIter(n, i+1, p2, next(e2), k)
		})
	}
	canMore := n.Max == -1 || i < n.Max
	tryBody := func() bool {
		if !canMore {
			return false
		}
		return m.match(n.Body, pos, e, func(p2 int, e2 Env) bool {
			if p2 == pos {
				return false // an extra iteration must consume
			}
			return m.loopIter(n, i+1, p2, next(e2), k)
		})
	}
	if n.Fewest {
		if k(pos, e) {
			return true
		}
		m.Backtracks++
		return tryBody()
	}
	if tryBody() {
		return true
	}
	m.Backtracks++
	return k(pos, e)
}

func collectSubs(n *Node, subs map[string]*Node) {
	if n == nil {
		return
	}
	if n.K == KSub {
		subs[n.S] = n
	}
	for _, k := range n.Kids {
		collectSubs(k, subs)
	}
	collectSubs(n.Body, subs)
}

type ModelResult struct {
	Spans        []Span
	DontCare     bool
	Steps        int
	Backtracks   int
	AbandonedCap int
	Rebinds      int
	OverBudget   bool
}

// ModelFindAll implements the scan loop for one command body: leftmost,
// non-overlapping, non-empty matches.
func ModelFindAll(globals []Global, body []*Node, text string, budget int) (res ModelResult) {
	m := &Model{text: text, subs: map[string]*Node{}, globals: map[string]Global{}, Budget: budget}
	defer func() {
		if r := recover(); r != nil {
			switch r.(type) {
			case ModelBudget, ErrBudget:
				res = ModelResult{OverBudget: true, Steps: m.Steps}
			case ErrUndefined:
				res = ModelResult{DontCare: true, Steps: m.Steps}
			default:
				panic(r)
			}
		}
	}()
	for _, g := range globals {
		m.globals[g.Name] = g
		for _, n := range g.Body {
			collectSubs(n, m.subs)
		}
	}
	for _, n := range body {
		collectSubs(n, m.subs)
	}
	pos := 0
	var spans []Span
	for pos < len(text) {
		end := -1
		var env Env
		m.seq(body, 0, pos, Env{}, func(p2 int, e Env) bool {
			end = p2
			env = e
			return true
		})
		if end > pos {
			sp := Span{Start: pos, End: end, Vars: env.Map()}
			if nested := env.Nested(); len(nested) > 0 {
				sp.Nested = nested
			}
			spans = append(spans, sp)
			pos = end
		} else {
			pos++
		}
	}
	return ModelResult{Spans: spans, DontCare: m.DontCare, Steps: m.Steps, Backtracks: m.Backtracks,
		AbandonedCap: m.AbandonedCap, Rebinds: m.Rebinds}
}

// hasCRBeforeLF is used by generators that must avoid the CRLF line-end cell.
func hasCR(s string) bool { return strings.Contains(s, "\r") }
