package props

// Process language (transforms and predicates): IR, renderer, reference evaluator
// and reference type checker, written from docs/language/LanguageDetails.md
// ("Type Coersion" and "Statement Type Requirements").

import (
	"fmt"
	"strconv"
)

type PType int

const (
	TString PType = iota
	TNumber
	TBool
	TError
)

func (t PType) String() string { return [...]string{"string", "number", "bool", "error"}[t] }

// Expr kinds: "str", "num", "bool", "var", "un", "bin"
type Expr struct {
	K  string `json:"k"`
	S  string `json:"s,omitempty"`  // string value / variable name / operator
	N  int    `json:"n,omitempty"`  // number value
	B  bool   `json:"b,omitempty"`  // bool value
	L  *Expr  `json:"l,omitempty"`  // lhs / unary operand
	R  *Expr  `json:"r,omitempty"`  // rhs
	VT PType  `json:"vt,omitempty"` // declared type of a variable (generator knowledge)
}

// Stmt kinds: "set", "if", "return", "debug", "loop", "break", "continue"
type Stmt struct {
	K    string `json:"k"`
	Name string `json:"name,omitempty"`
	E    *Expr  `json:"e,omitempty"`
	Then []Stmt `json:"then,omitempty"`
	Else []Stmt `json:"else,omitempty"`
	Body []Stmt `json:"body,omitempty"`
}

func Str(s string) *Expr          { return &Expr{K: "str", S: s} }
func Num(n int) *Expr             { return &Expr{K: "num", N: n} }
func Bool(b bool) *Expr           { return &Expr{K: "bool", B: b} }
func Var(n string, t PType) *Expr { return &Expr{K: "var", S: n, VT: t} }
func Un(op string, e *Expr) *Expr { return &Expr{K: "un", S: op, L: e} }
func Bin(op string, l, r *Expr) *Expr {
	return &Expr{K: "bin", S: op, L: l, R: r}
}

var binaryOps = []string{"+", "-", "*", "/", "%", "==", "!=", "<", ">", "<=", ">=", "and", "or"}
var unaryOps = []string{"not", "head", "tail"}

// precedence levels as stated by the property: * / % > + - > comparisons > and or.
// == != and < > <= >= are both "comparisons"; their relative precedence is not
// documented, so the minimal-parentheses renderer never relies on it.
func precLevel(op string) int {
	switch op {
	case "*", "/", "%":
		return 4
	case "+", "-":
		return 3
	case "==", "!=", "<", ">", "<=", ">=":
		return 2
	case "and", "or":
		return 1
	}
	return 0
}

func isEqOp(op string) bool { return op == "==" || op == "!=" }

// Tokens renders e. full=true parenthesises every composite operand; full=false
// drops exactly the parentheses made redundant by the stated precedence and
// left-associativity rules.
func (e *Expr) Tokens(full bool) []string {
	switch e.K {
	case "str":
		return []string{Quote(e.S)}
	case "numraw":
		return []string{e.S}
	case "num":
		if e.N < 0 {
			// there is no unary minus: negative numbers are written 0 - n
			return []string{"(", "0", "-", strconv.Itoa(-e.N), ")"}
		}
		return []string{strconv.Itoa(e.N)}
	case "bool":
		if e.B {
			return []string{"true"}
		}
		return []string{"false"}
	case "var":
		return []string{e.S}
	case "un":
		out := []string{e.S}
		// the binding strength of prefix operators is not documented: always parenthesise
		// composite operands
		if e.L.K == "un" || e.L.K == "bin" {
			out = append(out, "(")
			out = append(out, e.L.Tokens(full)...)
			return append(out, ")")
		}
		return append(out, e.L.Tokens(full)...)
	case "bin":
		out := []string{}
		out = append(out, operandTokens(e.L, e.S, true, full)...)
		out = append(out, e.S)
		return append(out, operandTokens(e.R, e.S, false, full)...)
	}
	panic("expr kind " + e.K)
}

func operandTokens(o *Expr, parentOp string, left bool, full bool) []string {
	need := false
	switch o.K {
	case "un":
		// `not a == b`: binding of prefix operators relative to infix ones is not
		// documented, keep the parentheses
		need = true
	case "bin":
		if full {
			need = true
		} else {
			po, co := precLevel(parentOp), precLevel(o.S)
			switch {
			case co > po:
				need = false
			case co < po:
				need = true
			default: // same level
				if po == 2 && isEqOp(parentOp) != isEqOp(o.S) {
					need = true // == vs < : undocumented
				} else {
					need = !left // left-assoc: a op b op c == (a op b) op c
				}
			}
		}
	}
	t := o.Tokens(full)
	if !need {
		return t
	}
	out := []string{"("}
	out = append(out, t...)
	return append(out, ")")
}

func StmtsTokens(stmts []Stmt, full bool) []string {
	out := []string{}
	for _, s := range stmts {
		out = append(out, s.Tokens(full)...)
	}
	return out
}

func (s Stmt) Tokens(full bool) []string {
	switch s.K {
	case "set":
		out := []string{"set", s.Name, "to"}
		return append(out, s.E.Tokens(full)...)
	case "return":
		return append([]string{"return"}, s.E.Tokens(full)...)
	case "debug":
		return append([]string{"debug"}, s.E.Tokens(full)...)
	case "if":
		out := append([]string{"if"}, s.E.Tokens(full)...)
		out = append(out, "then")
		out = append(out, StmtsTokens(s.Then, full)...)
		if s.Else != nil {
			out = append(out, "else")
			out = append(out, StmtsTokens(s.Else, full)...)
		}
		return append(out, "end")
	case "loop":
		out := []string{"loop"}
		out = append(out, StmtsTokens(s.Body, full)...)
		return append(out, "end")
	case "break":
		return []string{"break"}
	case "continue":
		return []string{"continue"}
	}
	panic("stmt kind " + s.K)
}

// ---------------------------------------------------------------- values

type Value struct {
	T PType
	S string
	N int
	B bool
}

func VS(s string) Value { return Value{T: TString, S: s} }
func VN(n int) Value    { return Value{T: TNumber, N: n} }
func VB(b bool) Value   { return Value{T: TBool, B: b} }

func (v Value) AsString() string {
	switch v.T {
	case TString:
		return v.S
	case TNumber:
		return strconv.Itoa(v.N)
	default:
		if v.B {
			return "true"
		}
		return "false"
	}
}

func (v Value) AsNumber() int {
	switch v.T {
	case TString:
		n, err := strconv.Atoi(v.S)
		if err != nil {
			return 0
		}
		return n
	case TNumber:
		return v.N
	default:
		if v.B {
			return 1
		}
		return 0
	}
}

func (v Value) AsBool() bool {
	switch v.T {
	case TString:
		return len(v.S) != 0
	case TNumber:
		return v.N != 0
	default:
		return v.B
	}
}

func (v Value) String() string { return fmt.Sprintf("%s(%s)", v.T, v.AsString()) }

// ErrUndefined is raised by the evaluator for operations that have no documented
// result (division by zero, operator/type pairs outside the table).
type ErrUndefined struct{ What string }

func (e ErrUndefined) Error() string { return e.What }

// Eval evaluates e in env (unknown variables are the empty string).
func Eval(e *Expr, env map[string]Value) Value {
	switch e.K {
	case "str":
		return VS(e.S)
	case "numraw":
		// a number literal too large for an integer: its type is number; the value the
		// engine gives it (0) is documented nowhere and no check depends on it
		return VN(0)
	case "num":
		return VN(e.N)
	case "bool":
		return VB(e.B)
	case "var":
		if v, ok := env[e.S]; ok {
			return v
		}
		return VS("")
	case "un":
		v := Eval(e.L, env)
		switch e.S {
		case "not":
			return VB(!v.AsBool())
		case "head":
			s := v.AsString()
			if len(s) == 0 {
				return VS("")
			}
			return VS(s[:1])
		case "tail":
			s := v.AsString()
			if len(s) <= 1 {
				return VS("")
			}
			return VS(s[1:])
		}
	case "bin":
		l := Eval(e.L, env)
		r := Eval(e.R, env)
		return evalBin(e.S, l, r)
	}
	panic("eval kind " + e.K)
}

func arith(op string, a, b int) Value {
	switch op {
	case "+":
		return VN(a + b)
	case "-":
		return VN(a - b)
	case "*":
		return VN(a * b)
	case "/":
		if b == 0 {
			panic(ErrUndefined{"division by zero"})
		}
		return VN(a / b)
	case "%":
		if b == 0 {
			panic(ErrUndefined{"modulo by zero"})
		}
		return VN(a % b)
	}
	panic(ErrUndefined{"arith " + op})
}

func cmpInt(op string, a, b int) bool {
	switch op {
	case "==":
		return a == b
	case "!=":
		return a != b
	case "<":
		return a < b
	case ">":
		return a > b
	case "<=":
		return a <= b
	case ">=":
		return a >= b
	}
	panic(ErrUndefined{"cmp " + op})
}

func cmpStr(op string, a, b string) bool {
	switch op {
	case "==":
		return a == b
	case "!=":
		return a != b
	case "<":
		return a < b
	case ">":
		return a > b
	case "<=":
		return a <= b
	case ">=":
		return a >= b
	}
	panic(ErrUndefined{"cmp " + op})
}

func evalBin(op string, l, r Value) Value {
	switch l.T {
	case TString:
		switch op {
		case "+":
			rs := r.AsString()
			if len(l.S)+len(rs) > 1<<20 {
				// a string doubling in a loop outruns any step budget: the same verdict
				panic(ErrBudget{})
			}
			return VS(l.S + rs)
		case "==", "!=", "<", ">", "<=", ">=":
			return VB(cmpStr(op, l.S, r.AsString()))
		case "-", "*", "/", "%":
			if r.T == TNumber { // "coerced LH" rows
				return arith(op, l.AsNumber(), r.N)
			}
		}
	case TBool:
		switch op {
		case "and":
			return VB(l.B && r.AsBool())
		case "or":
			return VB(l.B || r.AsBool())
		case "==":
			return VB(l.B == r.AsBool())
		case "!=":
			return VB(l.B != r.AsBool())
		case "<", ">", "<=", ">=":
			// bool < bool: the right operand is coerced to bool, then compared as 0/1
			return VB(cmpInt(op, l.AsNumber(), VB(r.AsBool()).AsNumber()))
		}
	case TNumber:
		switch op {
		case "==", "!=", "<", ">", "<=", ">=":
			return VB(cmpInt(op, l.N, r.AsNumber()))
		case "+", "-", "*", "/", "%":
			return arith(op, l.N, r.AsNumber())
		}
	}
	panic(ErrUndefined{fmt.Sprintf("%s %s %s", l.T, op, r.T)})
}

// ---------------------------------------------------------------- type checker

// TypeOfBin returns the documented result type of `lt op rt`, or TError.
// open reports a cell the documents leave open.
func TypeOfBin(op string, lt, rt PType) (res PType, open bool) {
	switch lt {
	case TString:
		switch op {
		case "+":
			return TString, false
		case "==", "!=", "<", ">", "<=", ">=":
			return TBool, false
		case "-", "*", "/", "%":
			if rt == TNumber {
				return TNumber, false
			}
		}
	case TBool:
		switch op {
		case "and", "or", "==", "!=", "<", ">", "<=", ">=":
			return TBool, false
		case "-", "*", "/", "%":
			if rt == TNumber {
				// "coerced LH - number": the table can be read as covering a bool LH
				return TError, true
			}
		}
	case TNumber:
		switch op {
		case "==", "!=", "<", ">", "<=", ">=":
			return TBool, false
		case "+", "-", "*", "/", "%":
			return TNumber, false
		}
	}
	return TError, false
}

func TypeOfUn(op string, t PType) PType {
	switch {
	case op == "not" && t == TBool:
		return TBool
	case (op == "head" || op == "tail") && t == TString:
		return TString
	}
	return TError
}

type TypeEnv map[string]PType

// TypeOf computes the static type of e; open is set when the verdict depends on a
// cell the documentation leaves open.
func TypeOf(e *Expr, env TypeEnv) (t PType, open bool) {
	switch e.K {
	case "str":
		return TString, false
	case "num", "numraw":
		return TNumber, false
	case "bool":
		return TBool, false
	case "var":
		if t, ok := env[e.S]; ok {
			return t, false
		}
		return TString, false
	case "un":
		t, o := TypeOf(e.L, env)
		if t == TError {
			return TError, o
		}
		return TypeOfUn(e.S, t), o
	case "bin":
		lt, lo := TypeOf(e.L, env)
		rt, ro := TypeOf(e.R, env)
		if lt == TError || rt == TError {
			return TError, lo || ro
		}
		res, o := TypeOfBin(e.S, lt, rt)
		return res, o || lo || ro
	}
	panic("typeof kind " + e.K)
}

type Ctx int

const (
	CtxPredicate Ctx = iota
	CtxTransform
)

// CheckStmts is the reference type checker: ok=false means "must be rejected".
// open=true means the documents do not determine the verdict.
func CheckStmts(stmts []Stmt, ctx Ctx, env TypeEnv, inLoop bool) (ok bool, open bool) {
	for _, s := range stmts {
		o, op := checkStmt(s, ctx, env, inLoop)
		if op {
			open = true
		}
		if !o {
			return false, open
		}
	}
	return true, open
}

func checkStmt(s Stmt, ctx Ctx, env TypeEnv, inLoop bool) (bool, bool) {
	switch s.K {
	case "set":
		t, o := TypeOf(s.E, env)
		if t == TError {
			return false, o
		}
		env[s.Name] = t
		return true, o
	case "debug":
		t, o := TypeOf(s.E, env)
		return t != TError, o
	case "return":
		t, o := TypeOf(s.E, env)
		if t == TError {
			return false, o
		}
		if ctx == CtxPredicate {
			return t == TBool, o
		}
		return t == TString || t == TNumber, o
	case "if":
		t, o := TypeOf(s.E, env)
		if t != TBool {
			return false, o
		}
		ok1, o1 := CheckStmts(s.Then, ctx, env, inLoop)
		if !ok1 {
			return false, o || o1
		}
		ok2, o2 := CheckStmts(s.Else, ctx, env, inLoop)
		return ok2, o || o1 || o2
	case "loop":
		return CheckStmts(s.Body, ctx, env, true)
	case "break", "continue":
		return inLoop, false
	}
	panic("check kind " + s.K)
}

// ---------------------------------------------------------------- statement evaluator

type execStatus int

const (
	stNext execStatus = iota
	stBreak
	stContinue
	stReturn
)

// ErrBudget is raised when a process program runs longer than the step budget.
type ErrBudget struct{}

// Exec runs stmts; returns (value, returned). A program that falls off the end
// returns (zero, false).
func Exec(stmts []Stmt, env map[string]Value, budget *int) (Value, bool) {
	st, v := execList(stmts, env, budget)
	return v, st == stReturn
}

func execList(stmts []Stmt, env map[string]Value, budget *int) (execStatus, Value) {
	for _, s := range stmts {
		*budget--
		if *budget < 0 {
			panic(ErrBudget{})
		}
		switch s.K {
		case "set":
			env[s.Name] = Eval(s.E, env)
		case "debug":
			Eval(s.E, env)
		case "return":
			return stReturn, Eval(s.E, env)
		case "if":
			var st execStatus
			var v Value
			if Eval(s.E, env).AsBool() {
				st, v = execList(s.Then, env, budget)
			} else {
				st, v = execList(s.Else, env, budget)
			}
			if st != stNext {
				return st, v
			}
		case "loop":
			for {
				st, v := execList(s.Body, env, budget)
				if st == stReturn {
					return st, v
				}
				if st == stBreak {
					break
				}
				*budget--
				if *budget < 0 {
					panic(ErrBudget{})
				}
			}
		case "break":
			return stBreak, Value{}
		case "continue":
			return stContinue, Value{}
		}
	}
	return stNext, Value{}
}
