package props

// Generators for the process language: type-directed expressions (C11, C05, C09),
// untyped expressions and statement lists (C12).

import (
	"fmt"
	"strings"

	"pgregory.net/rapid"
)

var boundaryStrings = []string{"", "a", "ab", "0", "12", "-5", "abc", "true", "7", "2147483648", "-99999999999", "\u00e9t\u00e9", " 42", "42\r", "42\n", "\t7", "7 ", "+5", "0x10", "1e3", "\u00a042"}
var boundaryNumbers = []int{0, 1, 2, 7, -3, 12}

type exprGen struct {
	t        *rapid.T
	vars     map[PType][]string // variables usable, by type
	zeroDivs int                // zero divisors avoided by construction (K1)
}

func (g *exprGen) lit(want PType) *Expr {
	switch want {
	case TString:
		return Str(rapid.SampledFrom(boundaryStrings).Draw(g.t, "slit"))
	case TNumber:
		return Num(rapid.SampledFrom(boundaryNumbers).Draw(g.t, "nlit"))
	default:
		return Bool(rapid.Bool().Draw(g.t, "blit"))
	}
}

func (g *exprGen) leaf(want PType) *Expr {
	if vs := g.vars[want]; len(vs) > 0 && rapid.IntRange(0, 2).Draw(g.t, "usevar") != 0 {
		return Var(rapid.SampledFrom(vs).Draw(g.t, "var"), want)
	}
	return g.lit(want)
}

func (g *exprGen) anyType() PType {
	return PType(rapid.IntRange(0, 2).Draw(g.t, "anytype"))
}

// nonZero returns an operand whose numeric coercion is known to be non-zero.
func (g *exprGen) nonZero() *Expr {
	g.zeroDivs++
	switch rapid.IntRange(0, 3).Draw(g.t, "nz") {
	case 0:
		return Str(rapid.SampledFrom([]string{"12", "-5", "7"}).Draw(g.t, "nzs"))
	case 1:
		return Bool(true)
	default:
		return Num(rapid.SampledFrom([]int{1, 2, 7, -3, 12}).Draw(g.t, "nzn"))
	}
}

// Typed generates an expression whose documented type is want.
func (g *exprGen) Typed(want PType, depth int) *Expr {
	if depth <= 0 {
		return g.leaf(want)
	}
	switch want {
	case TString:
		switch rapid.IntRange(0, 4).Draw(g.t, "sform") {
		case 0:
			return g.leaf(TString)
		case 1:
			return Un(rapid.SampledFrom([]string{"head", "tail"}).Draw(g.t, "sun"), g.Typed(TString, depth-1))
		default:
			return Bin("+", g.Typed(TString, depth-1), g.Typed(g.anyType(), depth-1))
		}
	case TNumber:
		switch rapid.IntRange(0, 5).Draw(g.t, "nform") {
		case 0:
			return g.leaf(TNumber)
		case 1: // coerced LH rows: string (- * / %) number
			op := rapid.SampledFrom([]string{"-", "*", "/", "%"}).Draw(g.t, "cop")
			if op == "/" || op == "%" {
				return Bin(op, g.Typed(TString, depth-1), Num(rapid.SampledFrom([]int{1, 2, 7, -3}).Draw(g.t, "cnz")))
			}
			return Bin(op, g.Typed(TString, depth-1), g.Typed(TNumber, depth-1))
		default:
			op := rapid.SampledFrom([]string{"+", "-", "*", "/", "%"}).Draw(g.t, "nop")
			if op == "/" || op == "%" {
				return Bin(op, g.Typed(TNumber, depth-1), g.nonZero())
			}
			return Bin(op, g.Typed(TNumber, depth-1), g.Typed(g.anyType(), depth-1))
		}
	default:
		switch rapid.IntRange(0, 7).Draw(g.t, "bform") {
		case 7:
			// a chain of `and` / `or` without parentheses in the minimal rendering: the two
			// share one level and associate to the left
			ops := []string{"and", "or"}
			inner := Bin(rapid.SampledFrom(ops).Draw(g.t, "chainop1"), g.Typed(TBool, depth-1), g.leaf(TBool))
			return Bin(rapid.SampledFrom(ops).Draw(g.t, "chainop2"), inner, g.leaf(TBool))
		case 0:
			return g.leaf(TBool)
		case 1:
			return Un("not", g.Typed(TBool, depth-1))
		case 2:
			return Bin(rapid.SampledFrom([]string{"and", "or"}).Draw(g.t, "bop"), g.Typed(TBool, depth-1), g.Typed(g.anyType(), depth-1))
		default:
			op := rapid.SampledFrom([]string{"==", "!=", "<", ">", "<=", ">="}).Draw(g.t, "cmp")
			return Bin(op, g.Typed(g.anyType(), depth-1), g.Typed(g.anyType(), depth-1))
		}
	}
}

// Untyped generates an arbitrary expression tree (ill-typed nodes are common).
func (g *exprGen) Untyped(depth int) *Expr {
	if depth <= 0 || rapid.IntRange(0, 3).Draw(g.t, "uleaf") == 0 {
		return g.leaf(g.anyType())
	}
	if rapid.IntRange(0, 4).Draw(g.t, "uun") == 0 {
		return Un(rapid.SampledFrom(unaryOps).Draw(g.t, "uop"), g.Untyped(depth-1))
	}
	op := rapid.SampledFrom(binaryOps).Draw(g.t, "ubop")
	l := g.Untyped(depth - 1)
	var r *Expr
	if op == "/" || op == "%" {
		r = g.nonZero()
	} else {
		r = g.Untyped(depth - 1)
	}
	return Bin(op, l, r)
}

// exprDepth and feature detectors for the non-triviality rules.
func exprDepth(e *Expr) int {
	switch e.K {
	case "un":
		return 1 + exprDepth(e.L)
	case "bin":
		return 1 + max(exprDepth(e.L), exprDepth(e.R))
	}
	return 0
}

// hasCoercion reports whether some binary node has a right operand whose static
// type differs from the left one's (so a coercion happens), under env.
func hasCoercion(e *Expr, env TypeEnv) bool {
	switch e.K {
	case "un":
		return hasCoercion(e.L, env)
	case "bin":
		lt, _ := TypeOf(e.L, env)
		rt, _ := TypeOf(e.R, env)
		if lt != TError && rt != TError && lt != rt {
			return true
		}
		return hasCoercion(e.L, env) || hasCoercion(e.R, env)
	}
	return false
}

// hasAdjacentPrecedence: two binary operators of different precedence levels
// adjacent without parentheses in the minimal rendering.
func hasAdjacentPrecedence(e *Expr) bool {
	if e.K == "un" {
		return hasAdjacentPrecedence(e.L)
	}
	if e.K != "bin" {
		return false
	}
	for _, o := range []*Expr{e.L, e.R} {
		if o.K == "bin" && precLevel(o.S) > precLevel(e.S) {
			return true // rendered without parentheses in the minimal form
		}
		if hasAdjacentPrecedence(o) {
			return true
		}
	}
	return false
}

func exprString(e *Expr, full bool) string { return strings.Join(e.Tokens(full), " ") }

// ---------------------------------------------------------------- statements

type stmtGen struct {
	eg       *exprGen
	t        *rapid.T
	ctx      Ctx
	loopFuel int
	loops    int
}

func typedVarName(tp PType, i int) string {
	return fmt.Sprintf("%s%d", [...]string{"s", "n", "b"}[tp], i)
}

// declareVars returns unconditional initial assignments of one variable per type
// and registers them with the expression generator.
func declareVars(eg *exprGen) []Stmt {
	out := []Stmt{}
	for _, tp := range []PType{TString, TNumber, TBool} {
		name := typedVarName(tp, 1)
		out = append(out, Stmt{K: "set", Name: name, E: eg.lit(tp)})
		eg.vars[tp] = append(eg.vars[tp], name)
	}
	if rapid.IntRange(0, 2).Draw(eg.t, "casevariants") == 0 {
		// identifiers are case-sensitive (only keywords are folded): S1, N1, B1 are
		// other variables than s1, n1, b1, and here they have other types
		for i, tp := range []PType{TNumber, TBool, TString} {
			name := strings.ToUpper(typedVarName(PType(i), 1))
			out = append(out, Stmt{K: "set", Name: name, E: eg.lit(tp)})
			eg.vars[tp] = append(eg.vars[tp], name)
		}
	}
	return out
}

func returnFor(eg *exprGen, ctx Ctx, depth int) Stmt {
	if ctx == CtxPredicate {
		return Stmt{K: "return", E: eg.Typed(TBool, depth)}
	}
	tp := TString
	if rapid.Bool().Draw(eg.t, "retnum") {
		tp = TNumber
	}
	return Stmt{K: "return", E: eg.Typed(tp, depth)}
}

// counterLoop: a bounded loop in the usual idiom - a counter tested at the top,
// incremented before anything that may `continue`, several rounds, work after the
// continue. It terminates after `bound` rounds whatever the conditions evaluate to.
func (g *stmtGen) counterLoop(depth int) []Stmt {
	g.loops++
	ci := fmt.Sprintf("i%d", g.loops)
	acc := fmt.Sprintf("acc%d", g.loops)
	bound := rapid.IntRange(1, 5).Draw(g.t, "loopbound")
	body := []Stmt{
		{K: "if", E: Bin(">=", Var(ci, TNumber), Num(bound)), Then: []Stmt{{K: "break"}}},
		{K: "set", Name: ci, E: Bin("+", Var(ci, TNumber), Num(1))},
	}
	if rapid.Bool().Draw(g.t, "loopcontinue") {
		cond := Bin("==", Bin("%", Var(ci, TNumber), Num(rapid.IntRange(2, 3).Draw(g.t, "contmod"))), Num(rapid.IntRange(0, 1).Draw(g.t, "contrem")))
		if rapid.Bool().Draw(g.t, "contcond") {
			cond = g.eg.Typed(TBool, depth-1)
		}
		body = append(body, Stmt{K: "if", E: cond, Then: []Stmt{{K: "continue"}}})
	}
	body = append(body, Stmt{K: "set", Name: acc, E: Bin("+", Bin("+", Var(acc, TString), Var(ci, TNumber)), Str(","))})
	body = append(body, g.WellTyped(rapid.IntRange(0, 1).Draw(g.t, "looptail"), depth-1, true)...)
	g.eg.vars[TString] = append(g.eg.vars[TString], acc)
	return []Stmt{
		{K: "set", Name: ci, E: Num(0)},
		{K: "set", Name: acc, E: Str("")},
		{K: "loop", Body: body},
	}
}

// WellTyped generates a well-typed, terminating statement list that ends in a
// return on every path.
func (g *stmtGen) WellTyped(n int, depth int, inLoop bool) []Stmt {
	out := []Stmt{}
	for i := 0; i < n; i++ {
		switch rapid.IntRange(0, 6).Draw(g.t, "stmt") {
		case 0, 1:
			tp := g.eg.anyType()
			out = append(out, Stmt{K: "set", Name: typedVarName(tp, 1), E: g.eg.Typed(tp, depth)})
		case 2:
			s := Stmt{K: "if", E: g.eg.Typed(TBool, depth), Then: g.WellTyped(rapid.IntRange(0, 2).Draw(g.t, "thenn"), depth-1, inLoop)}
			if rapid.Bool().Draw(g.t, "haselse") {
				s.Else = g.WellTyped(rapid.IntRange(0, 2).Draw(g.t, "elsen"), depth-1, inLoop)
				if s.Else == nil {
					s.Else = []Stmt{}
				}
			}
			out = append(out, s)
		case 3:
			if g.loopFuel > 0 && depth > 0 {
				g.loopFuel--
				// a loop that always reaches `break`: counter-free form
				body := g.WellTyped(rapid.IntRange(0, 2).Draw(g.t, "loopn"), depth-1, true)
				body = append(body, Stmt{K: "break"})
				out = append(out, Stmt{K: "loop", Body: body})
			}
		case 6:
			if g.loopFuel > 0 && depth > 0 && !inLoop {
				g.loopFuel--
				out = append(out, g.counterLoop(depth)...)
			}
		case 4:
			if inLoop && rapid.Bool().Draw(g.t, "brk") {
				out = append(out, Stmt{K: "if", E: g.eg.Typed(TBool, depth), Then: []Stmt{{K: "break"}}})
			}
		case 5:
			out = append(out, Stmt{K: "if", E: g.eg.Typed(TBool, depth), Then: []Stmt{returnFor(g.eg, g.ctx, depth)}})
		}
	}
	return out
}
