package props

// Replay tier: plain functions that bypass rapid. A replay file is the Failure
// JSON written by a property (or a hand-written entry of known_findings.json).
//
//   VERIF_REPLAY=<file>[,<file>...]  go test -run TestReplay
//
// prints one line per file:  REPLAY <file> <PASS|FAIL> sig=<signature>

import (
	"encoding/json"
	"fmt"
	"os"
	"runtime"
	"strings"
	"testing"
)

type replayFn func(raw json.RawMessage) (sig string, what string)

var replayKinds = map[string]replayFn{}

func registerReplay(kind string, fn replayFn) { replayKinds[kind] = fn }

func init() {
	registerReplay("spans", func(raw json.RawMessage) (string, string) {
		var c SpanCase
		if err := json.Unmarshal(raw, &c); err != nil {
			return "bad-replay-file", err.Error()
		}
		sig, what, discard := checkSpanCase(c)
		if discard {
			return "", "discarded (VM budget)"
		}
		return sig, what
	})
}

type replayFile struct {
	Property string          `json:"property"`
	Kind     string          `json:"kind"`
	What     string          `json:"what"`
	Case     json.RawMessage `json:"case"`
	Sig      string          `json:"sig"`
}

func replayOne(path string) (sig, what string) {
	data, err := os.ReadFile(path)
	if err != nil {
		return "bad-replay-file", err.Error()
	}
	var rf replayFile
	if err := json.Unmarshal(data, &rf); err != nil {
		return "bad-replay-file", err.Error()
	}
	fn, ok := replayKinds[rf.Kind]
	if !ok {
		return "bad-replay-file", "unknown kind " + rf.Kind
	}
	return fn(rf.Case)
}

func TestReplay(t *testing.T) {
	list := os.Getenv("VERIF_REPLAY")
	if list == "" {
		t.Skip("VERIF_REPLAY not set")
	}
	for _, path := range strings.Split(list, ",") {
		if path == "" {
			continue
		}
		sig, what := replayOne(path)
		status := "PASS"
		if sig != "" {
			status = "FAIL"
		}
		fmt.Printf("REPLAY %s %s sig=%s :: %s\n", path, status, sig, strings.ReplaceAll(what, "\n", "\\n"))
	}
}

// ---- probe kinds used by known_findings.json

type acceptsCase struct {
	Src string `json:"src"`
}

type costCase struct {
	Src        string `json:"src"`
	MaxAllocMB int    `json:"max_alloc_mb"`
}

func init() {
	// "accepts": Compile must accept the source (signature carries the error otherwise)
	registerReplay("accepts", func(raw json.RawMessage) (string, string) {
		var c acceptsCase
		if err := json.Unmarshal(raw, &c); err != nil {
			return "bad-replay-file", err.Error()
		}
		_, err, p := CompileSafe(c.Src)
		if p != nil {
			return p.Sig(), "Compile panicked"
		}
		if err != nil {
			return "rejected: " + firstLine(err.Error()), c.Src + " is rejected: " + firstLine(err.Error())
		}
		return "", ""
	})
	// "compile_cost": memory allocated by Compile stays under a bound
	registerReplay("compile_cost", func(raw json.RawMessage) (string, string) {
		var c costCase
		if err := json.Unmarshal(raw, &c); err != nil {
			return "bad-replay-file", err.Error()
		}
		var before, after runtime.MemStats
		runtime.ReadMemStats(&before)
		_, _, p := CompileSafe(c.Src)
		runtime.ReadMemStats(&after)
		if p != nil {
			return p.Sig(), "Compile panicked"
		}
		mb := int((after.TotalAlloc - before.TotalAlloc) >> 20)
		if mb > c.MaxAllocMB {
			return "compile-cost", fmt.Sprintf("Compile of a %d-byte source allocated %d MB (bound %d MB)", len(c.Src), mb, c.MaxAllocMB)
		}
		return "", ""
	})
}
