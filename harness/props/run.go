package props

// Thin, panic-safe wrappers around the implementation under test.

import (
	"encoding/json"
	"fmt"
	"os"
	"path/filepath"
	"reflect"
	"regexp"
	"runtime/debug"
	"sort"
	"strings"
	"sync/atomic"

	"github.com/jmeaster30/vore/libvore"
	"github.com/jmeaster30/vore/libvore/engine"
)

// PanicInfo describes a recovered panic: message and the first stack frame inside
// the repository (file:function), which together form the signature of a finding.
type PanicInfo struct {
	Msg   string `json:"msg"`
	Frame string `json:"frame"`
}

func (p *PanicInfo) Sig() string {
	if p == nil {
		return ""
	}
	return "panic: " + p.Msg + " @ " + p.Frame
}

var frameRe = regexp.MustCompile(`(?m)^(github\.com/jmeaster30/vore/[^\s(]+(?:\([^)]*\))?[^\s(]*)\(`)

func capturePanic(r any) *PanicInfo {
	stack := string(debug.Stack())
	frame := "?"
	// first frame that belongs to the repository (skip runtime and harness frames)
	for _, m := range frameRe.FindAllStringSubmatch(stack, -1) {
		f := m[1]
		frame = strings.TrimPrefix(f, "github.com/jmeaster30/vore/")
		break
	}
	msg := fmt.Sprint(r)
	if e, ok := r.(error); ok {
		msg = e.Error()
	}
	if len(msg) > 200 {
		msg = msg[:200]
	}
	return &PanicInfo{Msg: msg, Frame: frame}
}

// CompileSafe compiles src and reports panics instead of propagating them.
func CompileSafe(src string) (v *libvore.Vore, err error, p *PanicInfo) {
	defer func() {
		if r := recover(); r != nil {
			p = capturePanic(r)
		}
	}()
	v, err = libvore.Compile(src)
	return
}

// CompileFileSafe writes src to a scratch file and compiles it with CompileFile
// (the entry point behind the CLI's -src).
func CompileFileSafe(src string) (v *libvore.Vore, err error, p *PanicInfo) {
	dir, derr := os.MkdirTemp(scratchDir(), "src-")
	if derr != nil {
		panic(derr)
	}
	defer os.RemoveAll(dir)
	path := filepath.Join(dir, "program.vore")
	if werr := os.WriteFile(path, []byte(src), 0o644); werr != nil {
		panic(werr)
	}
	defer func() {
		if r := recover(); r != nil {
			p = capturePanic(r)
		}
	}()
	v, err = libvore.CompileFile(path)
	return
}

type RunResult struct {
	Matches    engine.Matches
	Panic      *PanicInfo
	OverBudget bool  // VM step limit hit (verif hook), or the run was ended by the watchdog
	Aborted    bool  // OverBudget because the watchdog ended the run (wall time / memory), not the step limit
	MaxIter    int64 // largest iteration count of one loop activation (verif hook)
	MaxDepth   int64 // deepest call nesting (verif hook)
	Steps      int64 // VM instructions executed (verif hook; 0 without)
}

// RunSafe runs v on text with an optional VM step limit (0 = none).
// runActive is true while RunSafe / RunFilesSafe are inside the VM: the watchdog
// aborts only such runs (a stale abort flag is cleared by the next setStepLimit).
var runActive atomic.Bool

func RunSafe(v *libvore.Vore, text string, limit int64) (res RunResult) {
	setStepLimit(limit)
	runActive.Store(true)
	defer func() {
		runActive.Store(false)
		res.Steps = vmSteps()
		res.MaxIter, res.MaxDepth = vmProgress()
		setStepLimit(0)
		if r := recover(); r != nil {
			if isBudgetPanic(r) {
				res.OverBudget = true
				res.Aborted = limit == 0 || res.Steps <= limit
				return
			}
			res.Panic = capturePanic(r)
		}
	}()
	res.Matches = v.Run(text)
	return
}

// RunFilesSafe runs v on files.
func RunFilesSafe(v *libvore.Vore, files []string, mode engine.ReplaceMode, limit int64) (res RunResult) {
	setStepLimit(limit)
	runActive.Store(true)
	defer func() {
		runActive.Store(false)
		res.Steps = vmSteps()
		res.MaxIter, res.MaxDepth = vmProgress()
		setStepLimit(0)
		if r := recover(); r != nil {
			if isBudgetPanic(r) {
				res.OverBudget = true
				res.Aborted = limit == 0 || res.Steps <= limit
				return
			}
			res.Panic = capturePanic(r)
		}
	}()
	res.Matches = v.RunFiles(files, mode, false)
	return
}

// FlatVars returns the string variables of a match (nested maps are skipped).
func FlatVars(m engine.Match) map[string]string {
	out := map[string]string{}
	if m.Variables.Value == nil {
		return out
	}
	for k, v := range m.Variables.ToGo().(map[string]any) {
		if s, ok := v.(string); ok {
			out[k] = s
		}
	}
	return out
}

// normLoop normalises the reported value of a named loop (iteration -> bindings):
// iterations without any binding are dropped (the implementation also records an
// entry for an iteration that was started but abandoned), nested loops likewise.
func normLoop(v map[string]any) map[string]any {
	out := map[string]any{}
	for iter, b := range v {
		bm, ok := b.(map[string]any)
		if !ok {
			out[iter] = b
			continue
		}
		nb := map[string]any{}
		for name, val := range bm {
			if sub, isMap := val.(map[string]any); isMap {
				nb[name] = normLoop(sub)
			} else {
				nb[name] = val
			}
		}
		if len(nb) > 0 {
			out[iter] = nb
		}
	}
	return out
}

// NestedVars returns the named-loop variables of a match, normalised.
func NestedVars(m engine.Match) map[string]any {
	if m.Variables.Value == nil {
		return nil
	}
	var out map[string]any
	for k, v := range m.Variables.ToGo().(map[string]any) {
		if sub, ok := v.(map[string]any); ok {
			if out == nil {
				out = map[string]any{}
			}
			out[k] = normLoop(sub)
		}
	}
	return out
}

func SpansOf(ms engine.Matches) []Span {
	out := make([]Span, 0, len(ms))
	for _, m := range ms {
		out = append(out, Span{Start: m.Offset.Start, End: m.Offset.End, Vars: FlatVars(m), Nested: NestedVars(m)})
	}
	return out
}

func spansEqual(a, b []Span, vars bool) bool {
	if len(a) != len(b) {
		return false
	}
	for i := range a {
		if a[i].Start != b[i].Start || a[i].End != b[i].End {
			return false
		}
		if vars && !mapsEqual(a[i].Vars, b[i].Vars) {
			return false
		}
		if vars && !(len(a[i].Nested) == 0 && len(b[i].Nested) == 0) && !reflect.DeepEqual(jsonRound(a[i].Nested), jsonRound(b[i].Nested)) {
			return false
		}
	}
	return true
}

// jsonRound makes nested maps comparable regardless of how they were built
// (replay files hold them as decoded JSON).
func jsonRound(v any) any {
	data, _ := json.Marshal(v)
	var out any
	json.Unmarshal(data, &out)
	return out
}

func mapsEqual(a, b map[string]string) bool {
	if len(a) != len(b) {
		return false
	}
	for k, v := range a {
		if w, ok := b[k]; !ok || w != v {
			return false
		}
	}
	return true
}

func fmtSpans(s []Span, vars bool) string {
	parts := []string{}
	for _, x := range s {
		p := fmt.Sprintf("[%d,%d)", x.Start, x.End)
		if vars {
			keys := []string{}
			for k := range x.Vars {
				keys = append(keys, k)
			}
			sort.Strings(keys)
			kv := []string{}
			for _, k := range keys {
				kv = append(kv, fmt.Sprintf("%s=%q", k, x.Vars[k]))
			}
			p += "{" + strings.Join(kv, ",") + "}"
			if len(x.Nested) > 0 {
				data, _ := json.Marshal(x.Nested)
				p += string(data)
			}
		}
		parts = append(parts, p)
	}
	return strings.Join(parts, " ")
}

// MatchRec is a fully comparable, JSON-friendly copy of an engine.Match.
type MatchRec struct {
	Filename    string `json:"filename"`
	MatchNumber int    `json:"matchNumber"`
	Start       int    `json:"start"`
	End         int    `json:"end"`
	LineStart   int    `json:"lineStart"`
	LineEnd     int    `json:"lineEnd"`
	ColStart    int    `json:"colStart"`
	ColEnd      int    `json:"colEnd"`
	Value       string `json:"value"`
	HasRepl     bool   `json:"hasRepl"`
	Repl        string `json:"repl"`
	Vars        any    `json:"vars"`
}

func RecOf(m engine.Match) MatchRec {
	var vars any = map[string]any{}
	if m.Variables.Value != nil {
		vars = m.Variables.ToGo()
	}
	return MatchRec{
		Filename: m.Filename, MatchNumber: m.MatchNumber,
		Start: m.Offset.Start, End: m.Offset.End,
		LineStart: m.Line.Start, LineEnd: m.Line.End,
		ColStart: m.Column.Start, ColEnd: m.Column.End,
		Value: m.Value, HasRepl: m.Replacement.HasValue(), Repl: m.Replacement.GetValueOrDefault(""),
		Vars: vars,
	}
}

func RecsOf(ms engine.Matches) []MatchRec {
	out := make([]MatchRec, 0, len(ms))
	for _, m := range ms {
		out = append(out, RecOf(m))
	}
	return out
}

// scratchDir returns a per-process scratch directory outside /repo and /verif.
func scratchDir() string {
	d := os.Getenv("VERIF_SCRATCH")
	if d == "" {
		d = filepath.Join(os.TempDir(), fmt.Sprintf("verif-props-%d", os.Getpid()))
	}
	os.MkdirAll(d, 0o755)
	return d
}
