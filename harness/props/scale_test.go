package props

// "Scale" parts of C01, C03 and C04: cheap programs on texts of 0.5–4 kB with
// hundreds of matches, many lines and large amount clauses. The generated texts of
// the other parts are at most a few dozen bytes long.

import (
	"encoding/json"
	"fmt"
	"strings"
	"testing"
	"time"

	"pgregory.net/rapid"
)

// scaleBodies: linear-time bodies (no unbounded greedy loop over long runs).
var scaleBodies = [][]*Node{
	{{K: KLit, S: "ab"}},
	{{K: KLoop, Min: 1, Max: 4, Body: &Node{K: KClass, Class: "digit"}}},
	{{K: KCap, S: "w", Body: &Node{K: KLoop, Min: 1, Max: 6, Body: &Node{K: KClass, Class: "letter"}}}, {K: KClass, Class: "digit"}},
	{{K: KAnchor, Class: "line start"}, {K: KLoop, Min: 0, Max: 3, Body: &Node{K: KClass, Class: "any"}}},
	{{K: KAnchor, Class: "word start"}, {K: KCap, S: "c", Body: &Node{K: KClass, Class: "letter"}}, {K: KLoop, Min: 0, Max: 5, Body: &Node{K: KClass, Class: "lower"}}, {K: KAnchor, Class: "word end"}},
	{{K: KIn, Items: []Item{{Kind: 0, S: "a"}, {Kind: 0, S: "ab"}, {Kind: 1, From: "0", To: "4"}}}, {K: KIn, Not: true, Items: []Item{{Kind: 0, S: " "}, {Kind: 0, S: "\n"}}}},
	{{K: KOr, Kids: []*Node{{K: KLit, S: "cat"}, {K: KLit, S: "ca"}, {K: KLit, S: "\n"}}}},
	{{K: KCap, S: "d", Body: &Node{K: KClass, Class: "digit"}}, {K: KLoop, Min: 0, Max: 1, Body: &Node{K: KLit, S: "-"}}, {K: KRef, S: "d"}},
	{{K: KClass, Class: "whitespace"}, {K: KLoop, Min: 0, Max: 2, Fewest: true, Body: &Node{K: KClass, Class: "any"}}, {K: KAnchor, Class: "line end"}},
	{{K: KLit, S: "a", Caseless: true}, {K: KLit, S: "b", Not: true}},
	{{K: KLoop, Min: 2, Max: 2, Body: &Node{K: KIn, Items: []Item{{Kind: 2, Class: "upper"}, {Kind: 2, Class: "digit"}}}}},
	{{K: KLoop, Min: 1, Max: 3, Name: "L", Body: &Node{K: KSeq, Kids: []*Node{{K: KCap, S: "k", Body: &Node{K: KClass, Class: "lower"}}, {K: KLit, S: ","}}}}},
	// loops with minima in the dozens and hundreds
	{{K: KLoop, Min: 65, Max: 65, Body: &Node{K: KClass, Class: "any"}}},
	{{K: KLoop, Min: 70, Max: 90, Fewest: true, Body: &Node{K: KClass, Class: "any"}}, {K: KLit, S: "\n"}},
	{{K: KLit, S: "a"}, {K: KLoop, Min: 100, Max: 130, Body: &Node{K: KIn, Not: true, Items: []Item{{Kind: 0, S: "7"}}}}},
}

var scalePieces = []string{"ab", "cat", "ca", "a", "b", "c", "A", "B", "x", "0", "1", "22", "345", "7-7", "a1", "k,", "k,j,", " ", " ", "\n", "\n", "ab ", "Ab9", "-", "é"}

// clipForBody: the bodies with minima in the dozens cost a hundred instructions per
// start position (and the VM copies its stacks at every one): they get the first
// 900 bytes of the text.
func clipForBody(bi int, text string) string {
	if bi >= 12 && len(text) > 900 {
		return text[:900]
	}
	return text
}

func genScaleText(t *rapid.T) string {
	n := rapid.IntRange(150, 900).Draw(t, "pieces")
	// a handful of random "lines" repeated with variations keeps the number of draws small
	nl := rapid.IntRange(2, 6).Draw(t, "nlines")
	lines := make([]string, nl)
	for i := range lines {
		lines[i] = strings.Join(rapid.SliceOfN(rapid.SampledFrom(scalePieces), 3, 14).Draw(t, "line"), "")
	}
	var b strings.Builder
	for i := 0; b.Len() < n*3; i++ {
		b.WriteString(lines[(i*7+i/3)%nl])
		if i%5 == 4 {
			b.WriteString(fmt.Sprint(i))
		}
		b.WriteString("\n")
	}
	s := b.String()
	if rapid.Bool().Draw(t, "nofinalnl") {
		s = strings.TrimSuffix(s, "\n")
	}
	return s
}

func genScaleAmount(t *rapid.T) []string {
	switch rapid.IntRange(0, 6).Draw(t, "amt") {
	case 0:
		return []string{"skip", fmt.Sprint(rapid.IntRange(1, 300).Draw(t, "s"))}
	case 1:
		return []string{"skip", fmt.Sprint(rapid.IntRange(1, 200).Draw(t, "s")), "take", fmt.Sprint(rapid.IntRange(1, 200).Draw(t, "t"))}
	case 2:
		return []string{"last", fmt.Sprint(rapid.IntRange(1, 150).Draw(t, "n"))}
	case 3:
		return []string{"top", fmt.Sprint(rapid.IntRange(1, 300).Draw(t, "n"))}
	}
	return []string{"all"}
}

const vmLimitScale = 3_000_000

func TestC01Scale(t *testing.T) {
	seedNote(t)
	StartWatchdog("C01", 90*time.Second)
	st := NewStats("C01", "scale", "fifteen linear-time bodies (three of them with loop minima of 65..100, on the first 900 bytes) (literals, bounded loops, captures and back-references, in / not in, anchors, a named loop) x generated multi-line texts of 0.5..4 kB (hundreds of matches; a third of them searched as files of >= 9 kB through RunFiles) as find all and replace all; spans and variables vs the reference matcher; non-trivial = >= 50 matches; distinct by (body, text)")
	defer st.Write()
	rapid.Check(t, func(t *rapid.T) {
		bi := rapid.IntRange(0, len(scaleBodies)-1).Draw(t, "body")
		body := scaleBodies[bi]
		text := clipForBody(bi, genScaleText(t))
		asFile := rapid.IntRange(0, 2).Draw(t, "asfile") == 0
		if asFile {
			// as a file the text is at least two buffer windows long
			base := text
			for len(text) < 9000 && bi < 12 {
				text += "\n" + base
			}
		}
		prog := FindAll(body...)
		if rapid.IntRange(0, 3).Draw(t, "replace") == 0 {
			prog.Commands[0].Replace = true
			prog.Commands[0].With = []WithItem{{Kind: 1, S: "matchNumber"}}
		}
		src := prog.Source()
		st.Eval()
		mr := ModelFindAll(nil, body, text, 3_000_000)
		if mr.OverBudget || mr.DontCare {
			st.Count("discarded")
			return
		}
		c := SpanCase{Src: src, Text: text, Want: mr.Spans, CheckVars: true, File: asFile}
		if asFile {
			st.Count("searched_as_a_file")
		}
		v, err, p := CompileSafe(src)
		if p != nil || err != nil {
			t.Fatalf("HARNESS: %s does not compile", src)
		}
		res := runTextOrFile(v, text, asFile, vmLimitScale)
		if res.OverBudget {
			st.Count("discarded_vm_budget")
			return
		}
		if res.Panic != nil {
			Fail(t, Failure{Property: "C01", Kind: "spans", What: fmt.Sprintf("%s on a %d-byte text: Run panicked: %s", src, len(text), res.Panic.Sig()), Case: c, Sig: res.Panic.Sig()})
		}
		got := SpansOf(res.Matches)
		if !spansEqual(got, mr.Spans, true) {
			// report the first difference only (the lists are long)
			i := 0
			for i < len(got) && i < len(mr.Spans) && spansEqual(got[i:i+1], mr.Spans[i:i+1], true) {
				i++
			}
			Fail(t, Failure{Property: "C01", Kind: "spans", What: fmt.Sprintf("%s on a %d-byte text: %d matches, reference %d; first difference at index %d: got %s want %s", src, len(text), len(got), len(mr.Spans), i, fmtSpans(got[min(i, len(got)):min(i+1, len(got))], true), fmtSpans(mr.Spans[min(i, len(mr.Spans)):min(i+1, len(mr.Spans))], true)), Case: c, Sig: "span-mismatch"})
		}
		st.Max("max_matches", int64(len(got)))
		if len(got) >= 50 {
			st.NonTrivial(fmt.Sprint(bi, "\x00", text), func() any { return map[string]any{"src": src, "text_bytes": len(text), "matches": len(got)} })
		}
	})
}

func TestC03Scale(t *testing.T) {
	seedNote(t)
	StartWatchdog("C03", 90*time.Second)
	st := NewStats("C03", "scale", "the same fifteen bodies x multi-line texts of 0.5..4 kB (a third of them searched as files of >= 9 kB through RunFiles) x amount clauses with large numbers (skip <= 300, take <= 200, last <= 150, top <= 300), find and replace; every reported match re-derived from the text (slice, order, numbering, line and column over hundreds of lines, variables are substrings); non-trivial = >= 50 matches reported; distinct by (source, text)")
	defer st.Write()
	rapid.Check(t, func(t *rapid.T) {
		bi := rapid.IntRange(0, len(scaleBodies)-1).Draw(t, "body")
		body := scaleBodies[bi]
		text := clipForBody(bi, genScaleText(t))
		cmd := Command{Amount: genScaleAmount(t), Body: body}
		if rapid.IntRange(0, 3).Draw(t, "replace") == 0 {
			cmd.Replace = true
			cmd.With = []WithItem{{Kind: 0, S: "<"}, {Kind: 1, S: "lineNumber"}, {Kind: 0, S: ":"}, {Kind: 1, S: "columnNumber"}, {Kind: 0, S: ">"}}
		}
		src := (&Program{Commands: []Command{cmd}}).Source()
		c := RunCase{Src: src, Text: text, ASCII: isASCII(text), Limit: vmLimitScale, File: rapid.IntRange(0, 2).Draw(t, "asfile") == 0}
		if c.File {
			// as a file the text is at least two buffer windows long
			for len(c.Text) < 9000 {
				c.Text += "\n" + text
			}
			text = c.Text
			st.Count("searched_as_a_file")
		}
		st.Eval()
		v, err, p := CompileSafe(src)
		if p != nil || err != nil {
			t.Fatalf("HARNESS: %s does not compile", src)
		}
		res := runTextOrFile(v, text, c.File, vmLimitScale)
		if res.OverBudget {
			st.Count("discarded_vm_budget")
			return
		}
		if res.Panic != nil {
			Fail(t, Failure{Property: "C03", Kind: "invariants", What: fmt.Sprintf("%s on a %d-byte text: Run panicked: %s", src, len(text), res.Panic.Sig()), Case: c, Sig: res.Panic.Sig()})
		}
		if sig, what := matchInvariants(text, res.Matches, c.ASCII); sig != "" {
			Fail(t, Failure{Property: "C03", Kind: "invariants", What: fmt.Sprintf("%s on a %d-byte text: %s", src, len(text), what), Case: c, Sig: sig})
		}
		if cmd.Replace {
			for i, m := range res.Matches {
				want := fmt.Sprintf("<%d:%d>", m.Line.Start, m.Column.Start)
				if m.Replacement.GetValueOrDefault("") != want {
					Fail(t, Failure{Property: "C03", Kind: "invariants", What: fmt.Sprintf("%s: match %d at line %d column %d has replacement %q (lineNumber / columnNumber items)", src, i, m.Line.Start, m.Column.Start, m.Replacement.GetValueOrDefault("")), Case: c, Sig: "line-column-items"})
				}
			}
		}
		st.Max("max_matches", int64(len(res.Matches)))
		st.Max("max_lines", int64(strings.Count(text, "\n")))
		if len(res.Matches) >= 50 {
			st.NonTrivial(src+"\x00"+text, func() any { return map[string]any{"src": src, "text_bytes": len(text), "matches": len(res.Matches)} })
		}
	})
}

func TestC04Scale(t *testing.T) {
	seedNote(t)
	StartWatchdog("C04", 90*time.Second)
	st := NewStats("C04", "scale", "the same fifteen bodies x multi-line texts of 0.5..4 kB: the match list A of `all` (hundreds of matches) against clauses with s, t, n drawn around 0, |A|/2 and |A| (+-2) for find and replace .. with 'X' matchNumber and a transform reading matchNumber; compared field by field; non-trivial = |A| >= 50 and a proper non-empty window; distinct by (body, text, clause)")
	defer st.Write()
	rapid.Check(t, func(t *rapid.T) {
		bi := rapid.IntRange(0, len(scaleBodies)-1).Draw(t, "body")
		body := scaleBodies[bi]
		text := clipForBody(bi, genScaleText(t))
		c := WindowCase{Body: strings.Join(bodyTokens(body), " "), Text: text, Replace: rapid.IntRange(0, 2).Draw(t, "replace") == 0}
		all, sig, what, discard := runClauseLimit(c, "all", vmLimitScale)
		if discard {
			st.Count("discarded_vm_budget")
			return
		}
		if sig != "" {
			Fail(t, Failure{Property: "C04", Kind: "window", What: what, Case: c, Sig: sig})
		}
		n := len(all)
		around := func(name string) int {
			base := rapid.SampledFrom([]int{0, 1, n / 2, n - 1, n, n + 1}).Draw(t, name)
			v := base + rapid.IntRange(-2, 2).Draw(t, name+"d")
			if v < 0 {
				v = 0
			}
			return v
		}
		for k := 0; k < 6; k++ {
			s, tk, ln := around("s"), around("t"), max(around("n"), 1)
			type cl struct {
				text   string
				lo, hi int
			}
			q := []cl{
				{fmt.Sprintf("skip %d", s), s, n},
				{fmt.Sprintf("skip %d take %d", s, tk), s, s + tk},
				{fmt.Sprintf("top %d", ln), 0, ln},
				{fmt.Sprintf("take %d", tk), 0, tk},
				{fmt.Sprintf("last %d", ln), max(n-ln, 0), n},
			}[rapid.IntRange(0, 4).Draw(t, "clause")]
			got, sig, what, discard := runClauseLimit(c, q.text, vmLimitScale)
			st.Eval()
			if discard {
				continue
			}
			if sig != "" {
				Fail(t, Failure{Property: "C04", Kind: "window", What: what, Case: c, Sig: sig})
			}
			want := window(all, q.lo, q.hi)
			if !recsEqual(got, want) {
				i := 0
				for i < len(got) && i < len(want) && recsEqual(got[i:i+1], want[i:i+1]) {
					i++
				}
				Fail(t, Failure{Property: "C04", Kind: "windowscale", What: fmt.Sprintf("`%s` on a %d-byte text with |A| = %d: %d matches, A[%d:%d] has %d; first difference at index %d: got %s want %s", c.source(q.text), len(text), n, len(got), q.lo, q.hi, len(want), i, fmtRecs(got[min(i, len(got)):min(i+1, len(got))]), fmtRecs(want[min(i, len(want)):min(i+1, len(want))])), Case: WindowScaleCase{c, q.text, q.lo, q.hi}, Sig: "window-mismatch"})
			}
			if n >= 50 && len(want) > 0 && len(want) < n {
				st.NonTrivial(c.Body+"\x00"+text+q.text, func() any { return map[string]any{"clause": c.source(q.text), "text_bytes": len(text), "lenA": n} })
			}
		}
		st.Max("max_lenA", int64(n))
	})
}

// WindowScaleCase: one clause of a scale case (the "window" kind would re-run every clause).
type WindowScaleCase struct {
	WindowCase
	Clause string `json:"clause"`
	Lo     int    `json:"lo"`
	Hi     int    `json:"hi"`
}

func init() {
	registerReplay("windowscale", func(raw json.RawMessage) (string, string) {
		var c WindowScaleCase
		if err := json.Unmarshal(raw, &c); err != nil {
			return "bad-replay-file", err.Error()
		}
		all, sig, what, _ := runClauseLimit(c.WindowCase, "all", vmLimitScale)
		if sig != "" {
			return sig, what
		}
		got, sig, what, _ := runClauseLimit(c.WindowCase, c.Clause, vmLimitScale)
		if sig != "" {
			return sig, what
		}
		if !recsEqual(got, window(all, c.Lo, c.Hi)) {
			return "window-mismatch", fmt.Sprintf("`%s`: %d matches, A[%d:%d] of %d", c.source(c.Clause), len(got), c.Lo, c.Hi, len(all))
		}
		return "", ""
	})
}

func runClauseLimit(c WindowCase, clause string, limit int64) (recs []MatchRec, sig, what string, discard bool) {
	src := c.source(clause)
	v, err, p := CompileSafe(src)
	if p != nil {
		return nil, p.Sig(), "Compile panicked on " + src + ": " + p.Sig(), false
	}
	if err != nil {
		return nil, "compile-error", src + ": " + firstLine(err.Error()), false
	}
	res := RunSafe(v, c.Text, limit)
	if res.OverBudget {
		return nil, "", "", true
	}
	if res.Panic != nil {
		return nil, res.Panic.Sig(), "Run panicked on " + src + ": " + res.Panic.Sig(), false
	}
	return RecsOf(res.Matches), "", "", false
}

// TestC04Many: thousands of very short matches (one per two-byte line), so that the
// window of `last n` slides over hundreds and thousands of matches and the amounts
// lie on both sides of 512, 1024 and 2048.
func TestC04Many(t *testing.T) {
	seedNote(t)
	StartWatchdog("C04", 120*time.Second)
	st := NewStats("C04", "many", "exhaustive over texts of L = 513, 700, 1025, 1500, 2600 two-byte lines (one match each; the last line with and without its line end) x find / replace x clauses `last n`, `top n`, `skip s`, `skip s take t` with amounts 1, 2, 127, 128, 300, 511, 512, 513, 800, 1024, L-513, L-512, L-1, L: compared field by field with the slice of `all`; non-trivial = a proper non-empty window; distinct by (L, replace, clause)")
	st.Exhaustive = true
	defer st.Write()
	for _, L := range []int{513, 700, 1025, 1500, 2600} {
		for _, replace := range []bool{false, true} {
			text := strings.Repeat("a\n", L)
			if replace {
				text = strings.TrimSuffix(text, "\n")
			}
			c := WindowCase{Body: "'a'", Text: text, Replace: replace}
			all, sig, what, discard := runClauseLimit(c, "all", vmLimitScale)
			if discard || sig != "" || len(all) != L {
				t.Fatalf("HARNESS: `all` on %d lines: discard %v sig %q %s (%d matches)", L, discard, sig, what, len(all))
			}
			type cl struct {
				text   string
				lo, hi int
			}
			var clauses []cl
			for _, k := range []int{1, 2, 127, 128, 300, 511, 512, 513, 800, 1024, L - 513, L - 512, L - 1, L} {
				if k < 1 {
					continue
				}
				clauses = append(clauses, cl{fmt.Sprintf("last %d", k), max(L-k, 0), L}, cl{fmt.Sprintf("top %d", k), 0, k}, cl{fmt.Sprintf("skip %d", k), k, L}, cl{fmt.Sprintf("skip %d take 513", k), k, k + 513})
			}
			for _, q := range clauses {
				got, sig, what, discard := runClauseLimit(c, q.text, vmLimitScale)
				st.Eval()
				if discard {
					st.Count("discarded_vm_budget")
					continue
				}
				if sig != "" {
					Fail(t, Failure{Property: "C04", Kind: "window", What: what, Case: c, Sig: sig})
				}
				want := window(all, q.lo, q.hi)
				if !recsEqual(got, want) {
					i := 0
					for i < len(got) && i < len(want) && recsEqual(got[i:i+1], want[i:i+1]) {
						i++
					}
					Fail(t, Failure{Property: "C04", Kind: "windowscale", What: fmt.Sprintf("`%s` on %d two-byte lines: %d matches, A[%d:%d] has %d; first difference at index %d: got %s want %s", c.source(q.text), L, len(got), q.lo, q.hi, len(want), i, fmtRecs(got[min(i, len(got)):min(i+1, len(got))]), fmtRecs(want[min(i, len(want)):min(i+1, len(want))])), Case: WindowScaleCase{c, q.text, q.lo, q.hi}, Sig: "window-mismatch"})
				}
				if len(want) > 0 && len(want) < L {
					st.NonTrivial(fmt.Sprint(L, replace, q.text), func() any { return map[string]any{"clause": c.source(q.text), "lines": L} })
				}
			}
		}
	}
}
