package props

// Evidence accumulation, failure files, configuration from the environment and
// the in-process watchdog.

import (
	"encoding/binary"
	"encoding/json"
	"fmt"
	"hash/fnv"
	"os"
	"path/filepath"
	"runtime"
	"sort"
	"strconv"
	"sync"
	"sync/atomic"
	"testing"
	"time"
)

// ---------------------------------------------------------------- configuration

func envInt(name string, def int) int {
	if s := os.Getenv(name); s != "" {
		if n, err := strconv.Atoi(s); err == nil {
			return n
		}
	}
	return def
}

func tier() string {
	if t := os.Getenv("VERIF_TIER"); t == "thorough" {
		return "thorough"
	}
	return "quick"
}

// cases returns the case count for the current tier; VERIF_CASES overrides.
func cases(quick, thorough int) int {
	if n := envInt("VERIF_CASES", 0); n > 0 {
		return n
	}
	if tier() == "thorough" {
		return thorough
	}
	return quick
}

func outDir() string {
	d := os.Getenv("VERIF_OUT")
	if d == "" {
		d = scratchDir()
	}
	os.MkdirAll(d, 0o755)
	return d
}

func shard() string { return os.Getenv("VERIF_SHARD") }

// ---------------------------------------------------------------- stats

type sample struct {
	h uint64
	v any
}

type Stats struct {
	mu          sync.Mutex
	ID          string
	Part        string
	Rule        string
	Exhaustive  bool
	evaluations int64
	nontrivial  map[uint64]struct{}
	counters    map[string]int64
	maxes       map[string]int64
	first       []any
	reservoir   []sample
	start       time.Time
}

func NewStats(id, part, rule string) *Stats {
	return &Stats{ID: id, Part: part, Rule: rule, nontrivial: map[uint64]struct{}{},
		counters: map[string]int64{}, maxes: map[string]int64{}, start: time.Now()}
}

func hash64(s string) uint64 {
	h := fnv.New64a()
	h.Write([]byte(s))
	return h.Sum64()
}

func (s *Stats) Eval() {
	s.mu.Lock()
	s.evaluations++
	s.mu.Unlock()
}

func (s *Stats) EvalN(n int) {
	s.mu.Lock()
	s.evaluations += int64(n)
	s.mu.Unlock()
}

func (s *Stats) Count(name string) { s.Add(name, 1) }

func (s *Stats) Add(name string, d int64) {
	s.mu.Lock()
	s.counters[name] += d
	s.mu.Unlock()
}

func (s *Stats) Max(name string, v int64) {
	s.mu.Lock()
	if v > s.maxes[name] {
		s.maxes[name] = v
	}
	s.mu.Unlock()
}

// NonTrivial records a non-trivial case by its canonical key; sampleFn (may be
// nil) produces the written-out form if the case is chosen as a sample.
func (s *Stats) NonTrivial(key string, sampleFn func() any) {
	h := hash64(key)
	s.mu.Lock()
	defer s.mu.Unlock()
	if _, seen := s.nontrivial[h]; seen {
		return
	}
	s.nontrivial[h] = struct{}{}
	if sampleFn == nil {
		return
	}
	if len(s.first) < 4 {
		s.first = append(s.first, sampleFn())
		return
	}
	// deterministic reservoir: keep the 6 cases with the smallest key hash
	if len(s.reservoir) < 6 {
		s.reservoir = append(s.reservoir, sample{h, sampleFn()})
		return
	}
	maxI := 0
	for i := range s.reservoir {
		if s.reservoir[i].h > s.reservoir[maxI].h {
			maxI = i
		}
	}
	if h < s.reservoir[maxI].h {
		s.reservoir[maxI] = sample{h, sampleFn()}
	}
}

type statsFile struct {
	ID          string           `json:"id"`
	Part        string           `json:"part"`
	Rule        string           `json:"rule"`
	Exhaustive  bool             `json:"exhaustive"`
	Evaluations int64            `json:"evaluations"`
	Distinct    int              `json:"distinct_nontrivial"`
	Counters    map[string]int64 `json:"counters"`
	Maxes       map[string]int64 `json:"maxes"`
	Samples     []any            `json:"samples"`
	WallS       float64          `json:"wall_s"`
	HashFile    string           `json:"hash_file"`
}

// Write stores the statistics of this test (and the set of non-trivial hashes, so
// that the driver can take the union over shards).
func (s *Stats) Write() {
	s.mu.Lock()
	defer s.mu.Unlock()
	name := s.ID + "_" + s.Part
	if sh := shard(); sh != "" {
		name += "_" + sh
	}
	hashFile := filepath.Join(outDir(), "hashes_"+name+".bin")
	hs := make([]uint64, 0, len(s.nontrivial))
	for h := range s.nontrivial {
		hs = append(hs, h)
	}
	sort.Slice(hs, func(i, j int) bool { return hs[i] < hs[j] })
	buf := make([]byte, 8*len(hs))
	for i, h := range hs {
		binary.BigEndian.PutUint64(buf[8*i:], h)
	}
	os.WriteFile(hashFile, buf, 0o644)
	samples := append([]any{}, s.first...)
	sort.Slice(s.reservoir, func(i, j int) bool { return s.reservoir[i].h < s.reservoir[j].h })
	for _, r := range s.reservoir {
		samples = append(samples, r.v)
	}
	if n := heapAborts.Load(); n > 0 {
		s.counters["runs_ended_by_memory_watchdog"] = n
	}
	if n := slowestCaseMs.Load(); n > 0 {
		if s.maxes == nil {
			s.maxes = map[string]int64{}
		}
		if n > s.maxes["slowest_case_ms"] {
			s.maxes["slowest_case_ms"] = n
		}
	}
	if n := wallAborts.Load(); n > 0 {
		s.counters["runs_ended_by_wall_watchdog"] = n
	}
	f := statsFile{ID: s.ID, Part: s.Part, Rule: s.Rule, Exhaustive: s.Exhaustive, Evaluations: s.evaluations,
		Distinct: len(s.nontrivial), Counters: s.counters, Maxes: s.maxes, Samples: samples,
		WallS: time.Since(s.start).Seconds(), HashFile: hashFile}
	data, _ := json.MarshalIndent(f, "", " ")
	os.WriteFile(filepath.Join(outDir(), "stats_"+name+".json"), data, 0o644)
}

// ---------------------------------------------------------------- failures

// Failure is what a property writes just before failing. rapid re-runs the
// minimal case last, so the file left behind is the shrunk reproduction.
type Failure struct {
	Property string `json:"property"`
	Kind     string `json:"kind"` // replay kind, see replay.go
	What     string `json:"what"` // human readable description of the disagreement
	Case     any    `json:"case"` // the replayable case (kind specific)
	Sig      string `json:"sig"`  // signature used by the findings protocol
}

type fataler interface {
	Fatalf(format string, args ...any)
}

func failPath(id string) string {
	name := "fail_" + id
	if sh := shard(); sh != "" {
		name += "_" + sh
	}
	return filepath.Join(outDir(), name+".json")
}

// Fail writes the failure file and fails the (rapid or plain) test.
func Fail(t fataler, f Failure) {
	data, _ := json.MarshalIndent(f, "", " ")
	os.WriteFile(failPath(f.Property), data, 0o644)
	t.Fatalf("VIOLATION-CANDIDATE %s [%s] %s", f.Property, f.Sig, f.What)
}

// ---------------------------------------------------------------- watchdog + trace

type inflightDesc struct{ fn func() string } // fn == nil: no case in flight

var inflight atomic.Value // inflightDesc: describes the case being executed (lazily)
var inflightSeq atomic.Int64

func init() {
	inflight.Store(inflightDesc{})
}

// SetInflight records the case about to be executed (for the watchdog and, when
// VERIF_TRACE is set, for the crash trace).
func SetInflight(desc func() string) {
	if traceFile != nil {
		fmt.Fprintln(traceFile, desc())
	}
	if watchdogOn {
		inflight.Store(inflightDesc{desc})
		inflightSeq.Add(1)
		inflightStart = time.Now()
	}
}

func ClearInflight() {
	if watchdogOn {
		if d := time.Since(inflightStart).Milliseconds(); d > slowestCaseMs.Load() {
			slowestCaseMs.Store(d)
		}
		inflight.Store(inflightDesc{})
		inflightSeq.Add(1)
	}
}

// inflightStart / slowestCaseMs: wall time of the slowest case of this process
// (reported in the evidence; tells how far the watchdog limits are from real cases).
var inflightStart time.Time
var slowestCaseMs atomic.Int64

var traceFile *os.File
var watchdogOn bool

// heapAborts counts runs ended by the watchdog because of their memory use.
var heapAborts atomic.Int64

// wallAborts counts runs ended by the watchdog after abortAfter of wall time.
var wallAborts atomic.Int64

// abortAfter: a test whose cases legitimately take longer (big files) raises it
// before it starts the watchdog.
var abortAfter = 3 * time.Second

// StartWatchdog arms the trace file and the watchdog goroutine: a case in flight
// for more than limit of wall time, or a heap above 3 GiB, ends the process with
// exit status 3 after writing the suspect to <out>/suspect_<id>.json. This is
// never a verdict by itself: the driver replays the suspect in isolation.
func StartWatchdog(id string, limit time.Duration) {
	if p := os.Getenv("VERIF_TRACE"); p != "" {
		traceFile, _ = os.OpenFile(p, os.O_CREATE|os.O_WRONLY|os.O_TRUNC|os.O_SYNC, 0o644)
	}
	if watchdogOn {
		return
	}
	watchdogOn = true
	go func() {
		lastSeq := int64(-1)
		abortedSeq := int64(-1)
		var since time.Time
		for {
			time.Sleep(100 * time.Millisecond)
			seq := inflightSeq.Load()
			curFn := inflight.Load().(inflightDesc).fn
			var ms runtime.MemStats
			if curFn != nil {
				runtime.ReadMemStats(&ms)
			}
			if seq != lastSeq {
				lastSeq = seq
				since = time.Now()
			}
			stuck := curFn != nil && time.Since(since) > limit
			big := curFn != nil && ms.HeapAlloc > 3<<30
			if !big && !stuck && curFn != nil && hookEnabled && id != "C10" && runActive.Load() && time.Since(since) > abortAfter && abortedSeq != seq {
				// a run far beyond any legitimate duration (cases take milliseconds): end it
				// as "over budget" once, which discards the case; if the case is still in
				// flight at the full limit the process ends below. Not for C10, whose
				// verdict is the step budget itself.
				abortedSeq = seq
				abortRun()
				wallAborts.Add(1)
			}
			if !big && !stuck && curFn != nil && hookEnabled && id != "C10" && runActive.Load() && ms.HeapAlloc > 1<<30 {
				// a run that has allocated a gigabyte: end it as "over budget" (the
				// properties that judge resource use treat that as their verdict, the
				// others discard the case) instead of losing the whole process
				abortRun()
				heapAborts.Add(1)
				time.Sleep(50 * time.Millisecond)
				runtime.GC()
				continue
			}
			cur := ""
			if stuck || big {
				cur = curFn()
			}
			if stuck || big {
				name := "suspect_" + id
				if sh := shard(); sh != "" {
					name += "_" + sh
				}
				reason := "wall"
				if big {
					reason = "heap"
				}
				os.WriteFile(filepath.Join(outDir(), name+".json"),
					[]byte(fmt.Sprintf("{\"reason\":%q,\"case\":%s}\n", reason, cur)), 0o644)
				fmt.Printf("WATCHDOG %s: case in flight too long (%s)\n", id, reason)
				os.Exit(3)
			}
		}
	}()
}

func jsonStr(v any) string {
	b, _ := json.Marshal(v)
	return string(b)
}

// seedNote prints what rapid will use, for the driver's log.
func seedNote(t *testing.T) {
	t.Logf("tier=%s shard=%q out=%s hook=%v", tier(), shard(), outDir(), hookEnabled)
}
