#!/bin/bash
# Runs the repository's own test suite (all workspace modules) with the verif guard OFF.
# Workspace mode (go.work); no -tags, no -mod flag. Prints go test -json events on stdout.
export GOPROXY=off GOSUMDB=off GOTOOLCHAIN=local GOFLAGS=
unset GOWORK
rc=0
for m in . ./libvore ./libvore/algo ./libvore/ast ./libvore/bytecode ./libvore/ds ./libvore/engine ./libvore/files ./libvore/testutils; do
  (cd /repo/$m && go test -json -vet=off -count=1 -timeout 25m ./...) || rc=1
done
exit $rc
