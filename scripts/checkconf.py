# Per-property configuration of the driver: which tests form the generated tier,
# how many cases each tier runs, how thorough runs are sharded.
#
# part keys: test (Go test name), rapid (default True: -rapid.checks/-rapid.seed are passed),
#            quick / thorough (case counts; for rapid parts = checks per shard),
#            shards (thorough), quick_shards, env, timeout_quick / timeout_thorough (s)

CHECKS = {
    "C01": {
        "parts": [
            {"test": "TestC01", "quick": 60000, "thorough": 300000, "shards": 16, "quick_shards": 2},
        ],
        "assumptions": [
            "reference matcher of DESIGN.md section 4 is the meaning of the core language; cells the documents leave open are discarded and counted",
            "cases whose reference evaluation needs more than 20000 model steps or 2M VM instructions are discarded and counted",
        ],
    },
    "C02": {
        "parts": [
            {"test": "TestC02", "quick": 60000, "thorough": 250000, "shards": 16, "quick_shards": 2},
        ],
        "assumptions": [
            "same reference matcher as C01; named loops (nested variable maps) are outside the model and covered by C03/C17 invariants only",
        ],
    },
}
