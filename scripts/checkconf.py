# Per-property configuration of the driver: which tests form the generated tier,
# how many cases each tier runs, how thorough runs are sharded.
#
# part keys: test (Go test name), rapid (default True: -rapid.checks/-rapid.seed are passed),
#            quick / thorough (case counts; for rapid parts = checks per shard),
#            shards (thorough), quick_shards, env, timeout_quick / timeout_thorough (s)

CHECKS = {
    "C01": {
        "parts": [
            {"test": "TestC01Enum", "rapid": False, "quick": 0, "thorough": 0, "shards": 16, "quick_shards": 4},
            {"test": "TestC01Enum3", "rapid": False, "quick": 0, "thorough": 0, "shards": 16, "only_tier": "thorough"},
            {"test": "TestC01Enum3", "rapid": False, "quick": 0, "thorough": 0, "quick_shards": 4, "only_tier": "quick", "env": {"VERIF_C01_STRIDE3": "40"}},
            {"test": "TestC01", "quick": 60000, "thorough": 300000, "shards": 16, "quick_shards": 2},
            {"test": "TestC01Scale", "quick": 400, "thorough": 1500, "shards": 16, "quick_shards": 2},
            {"test": "TestC01Named", "rapid": False, "quick": 0, "thorough": 0, "shards": 1},
        ],
        "assumptions": [
            "reference matcher of DESIGN.md section 4 is the meaning of the core language; cells the documents leave open are discarded and counted",
            "cases whose reference evaluation needs more than 20000 model steps or 400000 VM instructions are discarded and counted",
        ],
    },
    "C02": {
        "parts": [
            {"test": "TestC02", "quick": 60000, "thorough": 250000, "shards": 16, "quick_shards": 2},
        ],
        "assumptions": [
            "same reference matcher as C01; named loops (nested variable maps) are outside the model and covered by C03/C17 invariants only",
        ],
    },
    "C03": {
        "parts": [
            {"test": "TestC03", "quick": 12000, "thorough": 200000, "shards": 16, "quick_shards": 2},
            {"test": "TestC03Scale", "quick": 500, "thorough": 2000, "shards": 16, "quick_shards": 2},
        ],
        "assumptions": ["one search command per program; column claim checked on ASCII texts only; runs above 30000 VM instructions are discarded and counted"],
    },
    "C04": {
        "parts": [
            {"test": "TestC04", "quick": 2500, "thorough": 30000, "shards": 16, "quick_shards": 2},
            {"test": "TestC04Scale", "quick": 200, "thorough": 1000, "shards": 16, "quick_shards": 2},
            {"test": "TestC04Many", "rapid": False, "quick": 0, "thorough": 0, "shards": 1},
        ],
        "assumptions": ["`find all` itself is decided by C01; runs above 60000 VM instructions are discarded and counted"],
    },
    "C10": {
        "hang_is_violation": True,
        "parts": [
            {"test": "TestC10Enum", "rapid": False, "quick": 0, "thorough": 0, "shards": 16, "quick_shards": 8},
            {"test": "TestC10Sample", "rapid": False, "quick": 0, "thorough": 0, "shards": 16, "quick_shards": 8, "only_tier": "quick"},
            {"test": "TestC10Random", "quick": 20000, "thorough": 50000, "shards": 16, "quick_shards": 1},
            {"test": "TestC10Process", "quick": 3000, "thorough": 20000, "shards": 16, "quick_shards": 1},
            {"test": "TestC10Files", "rapid": False, "quick": 0, "thorough": 0, "shards": 1},
            {"test": "TestC10Data", "rapid": False, "quick": 0, "thorough": 0, "shards": 1},
        ],
        "assumptions": ["verif hook: VM instruction budget (1e6 in the enumerations, whose observed maximum is 1 568; 3e5 as a cost cap elsewhere) and progress measures - a loop activation with more iterations, or calls nested deeper, than the text is long plus 8 is a spin; a budget trip with bounded progress measures in the random part is a long search, not a verdict"],
    },
    "C11": {
        "parts": [
            {"test": "TestC11Table", "rapid": False, "quick": 0, "thorough": 0, "shards": 1},
            {"test": "TestC11Trees", "quick": 20000, "thorough": 200000, "shards": 16},
        ],
        "assumptions": ["harness evaluator written from LanguageDetails.md; zero divisors excluded by construction (finding K1); == vs < precedence and prefix-operator binding never relied on"],
    },
    "C12": {
        "parts": [
            {"test": "TestC12Table", "rapid": False, "quick": 0, "thorough": 0, "shards": 1},
            {"test": "TestC12Lists", "quick": 20000, "thorough": 200000, "shards": 16},
        ],
        "assumptions": ["harness type checker written from LanguageDetails.md; the cell bool (- * / %) number is open (run-time half only)"],
    },
    "C08": {
        "hang_is_violation": True,
        "parts": [
            {"test": "TestC08Corpus", "rapid": False, "quick": 0, "thorough": 0, "shards": 8, "quick_shards": 4},
            {"test": "TestC08Generated", "quick": 100000, "thorough": 500000, "shards": 16, "quick_shards": 2},
            {"gofuzz": "FuzzCompile", "fuzztime": "300s", "only_tier": "thorough"},
        ],
        "assumptions": ["inputs up to ~300 bytes (corpus files up to 3 kB); inputs whose numeric literals multiply to more than 4096 are excluded (finding K3) and counted",
                        "a case in flight for 60 s is replayed alone under 120 CPU-seconds / 6 GB before it counts as a hang"],
    },
    "C09": {
        "parts": [
            {"test": "TestC09", "quick": 12000, "thorough": 200000, "shards": 16, "quick_shards": 2},
            {"test": "TestC09OpenCells", "rapid": False, "quick": 0, "thorough": 0, "shards": 1},
            {"test": "TestC09Files", "quick": 300, "thorough": 1500, "shards": 16, "quick_shards": 2},
            {"test": "TestC09Names", "quick": 1500, "thorough": 10000, "shards": 8, "quick_shards": 1},
        ],
        "assumptions": ["process code terminates and subroutines consume before recursing (by construction); zero divisors (K1) and branch-typed variables (K2) excluded by construction, mutants that hit them are counted by signature",
                        "runs above 200000 VM instructions are discarded and counted"],
    },
    "C13": {
        # every run of a case is bounded by the step limit; a case that deterministically
        # never returns when replayed alone (a Compile blocked by what an earlier call
        # left behind) is a dependence between calls
        "hang_is_violation": True,
        "parts": [
            {"test": "TestC13", "quick": 4000, "thorough": 50000, "shards": 16, "quick_shards": 2},
            {"test": "TestC13History", "quick": 800, "thorough": 2000, "shards": 16, "quick_shards": 2},
            {"test": "TestC13Files", "quick": 1500, "thorough": 10000, "shards": 16, "quick_shards": 2},
        ],
        "assumptions": ["capture-free bodies; runs above 100000 VM instructions are discarded and counted"],
    },
    "C05": {
        "parts": [
            {"test": "TestC05", "quick": 10000, "thorough": 100000, "shards": 16, "quick_shards": 2},
        ],
        "assumptions": ["harness process evaluator; transforms return on every path and divide by non-zero constants only (K1); matchNumber is not used inside transform expressions (its run-time type is undocumented)"],
    },
    "C14": {
        "parts": [
            {"test": "TestC14", "quick": 60000, "thorough": 300000, "shards": 16, "quick_shards": 2},
            {"test": "TestC14ManyGroups", "rapid": False, "quick": 0, "thorough": 0, "shards": 1},
            {"test": "TestC14Counts", "rapid": False, "quick": 0, "thorough": 0, "shards": 1},
        ],
        "assumptions": ["conventional rule for references: a group keeps its last participating value; a reference evaluated before its group participated is engine specific -> discarded and counted",
                        "K4 (capturing group under a quantifier with min >= 1 or max = 0) and K5 (numbered reference in a regex with named groups) excluded by construction and counted"],
    },
    "C15": {
        "cli": True,
        "parts": [
            {"test": "TestC15Gaps", "rapid": False, "quick": 0, "thorough": 0, "shards": 16, "quick_shards": 8},
            {"test": "TestC15Long", "rapid": False, "quick": 0, "thorough": 0, "shards": 16, "quick_shards": 4},
            {"test": "TestC15Random", "quick": 5000, "thorough": 20000, "shards": 16, "quick_shards": 2},
            {"test": "TestC15CLI", "rapid": False, "quick": 0, "thorough": 0, "shards": 1},
        ],
        "assumptions": ["layout soundness rules: nothing only between tokens that do not fuse, no comment glued to a preceding '-', comment bodies without newline / ')--'"],
    },
    "C16": {
        "parts": [
            {"test": "TestC16Table", "rapid": False, "quick": 0, "thorough": 0, "shards": 1},
            {"test": "TestC16Long", "rapid": False, "quick": 0, "thorough": 0, "shards": 8, "quick_shards": 4},
            {"test": "TestC16Random", "quick": 20000, "thorough": 200000, "shards": 16},
        ],
        "assumptions": ["ASCII bytes 0x01..0x7f only"],
    },
    "C17": {
        "parts": [
            {"test": "TestC17", "quick": 8000, "thorough": 100000, "shards": 16, "quick_shards": 2},
        ],
        "assumptions": ["exact string equality only where the in-memory string is valid UTF-8 (encoding/json replaces invalid bytes)"],
    },
    "C06": {
        "parts": [
            {"test": "TestC06", "quick": 2500, "thorough": 20000, "shards": 16, "quick_shards": 2},
            {"test": "TestC06Seq", "quick": 1500, "thorough": 10000, "shards": 16, "quick_shards": 2},
            {"test": "TestC06Big", "rapid": False, "quick": 0, "thorough": 0, "shards": 9, "quick_shards": 4},
        ],
        "assumptions": ["generated files up to 20000 bytes, the enumerated big files 64 KiB .. 1 MiB; bodies without unbounded greedy loops (cost of the VM is quadratic in the run length); local filesystem"],
    },
    "C07": {
        # the in-memory run of a case is bounded by the step limit and returns; a file
        # run of the same bytes that deterministically exhausts 60 CPU-seconds alone
        # does not agree with it
        "hang_is_violation": True,
        "parts": [
            {"test": "TestC07Reader", "quick": 4000, "thorough": 10000, "shards": 16, "quick_shards": 2},
            {"test": "TestC07Files", "quick": 700, "thorough": 1500, "shards": 16, "quick_shards": 2},
            {"test": "TestC07Big", "rapid": False, "quick": 0, "thorough": 0, "shards": 6, "quick_shards": 4},
        ],
        "assumptions": ["generated files up to 20000 bytes (five buffer windows), the enumerated big files 300 kB .. 3 MiB; the reader is driven with the engine's two access shapes only (seek-then-read, ReadAt)"],
    },
    "C18": {
        "cli": True,
        "parts": [
            {"test": "TestC18Sample", "quick": 800, "thorough": 800, "shards": 1, "only_tier": "quick"},
            {"test": "TestC18All", "rapid": False, "quick": 0, "thorough": 0, "shards": 16, "only_tier": "thorough"},
        ],
        "assumptions": ["the binary is built from /repo's working tree by the check; under -no-output only exit status and file effects are asserted; with zero matches no JSON is required"],
    },
    "C19": {
        "race": True,
        "tags": "",
        "parts": [
            {"test": "TestC19", "quick": 15, "thorough": 50, "shards": 16, "quick_shards": 4, "race": True, "shrinktime": "5s"},
        ],
        "assumptions": ["schedules are those the Go scheduler produces (20 repetitions per job set, GOMAXPROCS 2 and 16); the race detector sees unsynchronised accesses that occur in one execution",
                        "built with -race and without the verif tag (the hook counter would add synchronisation)"],
    },
    "C20": {
        "parts": [
            {"test": "TestC20Table", "rapid": False, "quick": 0, "thorough": 0, "shards": 1},
            {"test": "TestC20Wide", "rapid": False, "quick": 0, "thorough": 0, "shards": 8, "quick_shards": 4},
            {"test": "TestC20Trees", "quick": 3000, "thorough": 5000, "shards": 16},
        ],
        "assumptions": ["star-only directory segments and ./.. segments excluded as the property says; paths compared after filepath.Clean"],
    },
}
