#!/bin/bash
# usage: confirm_seed.sh <Cxx> <a|b>
# Confirms, in the seeding agent's scratch worktree (reset to /repo's main), that the
# patch applies, the unedited suite passes with it, the demo fails with it and
# passes without it. Prints one summary line.
set -u
id=$1; v=$2
wt=${SEEDBASE:-/tmp/seed}/$id
sd=$wt/seed_out/$v
export GOFLAGS= GOPROXY=off GOSUMDB=off GOTOOLCHAIN=local; unset GOWORK
cd $wt || exit 2
git reset -q --hard main
rm -f libvore/seed_demo_test.go libvore/files/seed_demo_test.go
[ -f seed_out/go.mod ] || echo "module seedout" > seed_out/go.mod
run_demo() {
  if [ -f $sd/demo.sh ]; then
    (cd $wt && bash $sd/demo.sh >/tmp/demo_$id$v.log 2>&1); return $?
  fi
  pkgdir=libvore
  grep -q '^package files' $sd/demo_test.go && pkgdir=libvore/files
  cp $sd/demo_test.go $wt/$pkgdir/seed_demo_test.go
  flags=""
  [ "$id" = C19 ] && flags="-race"
  (cd $wt/$pkgdir && timeout 300 go test $flags -vet=off -count=1 -run TestSeedDemo . >/tmp/demo_$id$v.log 2>&1); rc=$?
  rm -f $wt/$pkgdir/seed_demo_test.go
  return $rc
}
run_demo; clean_rc=$?
if ! git apply $sd/patch.diff 2>/tmp/apply_$id$v.log; then echo "$id$v: PATCH DOES NOT APPLY"; exit 1; fi
suite=ok
for m in . libvore libvore/algo libvore/ast libvore/bytecode libvore/ds libvore/engine libvore/files libvore/testutils; do
  (cd $wt/$m && timeout 600 go test -vet=off -count=1 ./... >/tmp/suite_$id$v.log 2>&1) || suite=FAIL
done
(cd $wt && go build -o /tmp/vore_$id$v . >/dev/null 2>&1) || suite=BUILDFAIL
rm -f /tmp/vore_$id$v
run_demo; patched_rc=$?
git checkout -q -- . ; git clean -fdq -e seed_out
echo "$id$v: clean_demo_rc=$clean_rc patched_suite=$suite patched_demo_rc=$patched_rc"
