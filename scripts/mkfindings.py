#!/usr/bin/env python3
"""Writes /verif/known_findings.json.

status "fixed": a genuine defect of the pinned commit repaired by one `fix:` commit in
/repo; the probe is re-run by every check of the listed properties and a failure is a
VIOLATION again (a fixed entry suppresses nothing).
status "known": a genuine defect recorded rather than repaired; identified by its
reproducer AND its signature; printed as KNOWN-FINDING while it still fails.
The file is never written at run time.
"""
import json
import os
import subprocess

VERIF = os.path.dirname(os.path.dirname(os.path.abspath(__file__)))


def commit_of(subject_part):
    out = subprocess.check_output(["git", "-C", "/repo", "log", "--format=%h %s"], text=True)
    for line in out.splitlines():
        if subject_part in line:
            return line.split()[0]
    raise SystemExit("no commit for " + subject_part)


def spans(src, text, want, check_vars=False):
    return {"kind": "spans", "case": {"src": src, "text": text, "want": [
        {"start": s, "end": e, **({"vars": v} if v is not None else {})} for (s, e, v) in want], "check_vars": check_vars}}


def crash(src, text, file=False):
    return {"kind": "crash", "case": {"src": src, "text": text, "file": file}}


def comp(src):
    return {"kind": "compile", "case": {"src": src}}


def num(n):
    return {"k": "num", "n": n}


def strv(s):
    return {"k": "str", "s": s}


def boolv(b):
    return {"k": "bool", "b": b}


def binop(op, l, r):
    return {"k": "bin", "s": op, "l": l, "r": r}


F = []


def fixed(fid, props, what, commit_subject, reproduce):
    F.append({"id": fid, "status": "fixed", "properties": props, "what": what, "commit": commit_of(commit_subject), "reproduce": reproduce})


def known(fid, props, what, signature, reproduce):
    F.append({"id": fid, "status": "known", "properties": props, "what": what, "signature": signature, "reproduce": reproduce})


fixed("D1", ["C13", "C01"], "set p to pattern 'a' or 'b' referenced from two commands: the second reference jumps to shifted branch targets",
      "relocating a stored pattern shifted", spans("set p to pattern 'a' or 'b' find all p find all p", "ab", [(0, 1, None), (1, 2, None), (0, 1, None), (1, 2, None)]))
fixed("D2", ["C01", "C13"], "a subroutine defined inside a set-pattern body gets a second call frame on every call",
      "subroutine id not relocated", spans("set p to pattern {'a' maybe q 'b'} = q 'd' find all p", "aabbd", [(0, 5, None)]))
fixed("D2b", ["C13"], "a pattern that references another pattern twice matched only one occurrence",
      "subroutine id not relocated", spans("set p to pattern 'a' set g to pattern p p find all g", "aa", [(0, 2, None)]))
fixed("D3", ["C02", "C03"], "('a' = x 'b') or ('a' 'c') on \"ac\" reported x = \"a\"",
      "variables bound on an abandoned path", spans("find all ('a' = x 'b') or ('a' 'c')", "ac", [(0, 2, {})], True))
fixed("D3b", ["C02", "C01"], "a stale binding changed spans: at least 0 ('a' = v) v on \"a\"",
      "variables bound on an abandoned path", spans("find all at least 0 ('a' = v) v", "a", [], True))
fixed("D4", ["C01", "C14"], "'a' not digit matched \"a\": negated range classes matched the empty string at end of input",
      "negated digit/upper/lower/letter", spans("find all 'a' not digit", "a", []))
fixed("D4b", ["C14"], "@/a\\D/ matched \"a\" at end of input",
      "negated digit/upper/lower/letter", {"kind": "regex", "case": {"regex": "a\\D", "text": "a", "want": []}})
fixed("D5a", ["C09", "C02"], "'b' (maybe 'a') = x x on \"b\" panicked with EOF (zero-length read at the end of a string)",
      "zero-length read at the end", crash("find all 'b' (maybe 'a') = x x", "b"))
fixed("D5b", ["C02", "C14"], "a back-reference to an empty capture failed: 'b' (maybe 'a') = x x on \"bc\"",
      "back-reference to a capture holding the empty string", spans("find all 'b' (maybe 'a') = x x", "bc", [(0, 1, {"x": ""})], True))
fixed("D6", ["C09"], "find all () and find all panicked (instruction fetched from an empty program)",
      "empty body indexed past the end", crash("find all ()", "abc"))
fixed("D6b", ["C09"], "find all (no body) panicked", "empty body indexed past the end", crash("find all", "abc"))
fixed("D7", ["C01"], "the predicate of a referenced pattern saw the text matched before the reference",
      "predicate of a pattern saw everything", spans("set g to pattern at least 1 'a' begin return matchLength == 2 end find all 'b' g", "baa", [(0, 3, None)]))
fixed("D8", ["C07", "C09", "C06"], "RunFiles on an empty file panicked with EOF",
      "opening an empty file", crash("find all 'a'", "", True))
fixed("D9a", ["C08"], "an unterminated regex literal made the lexer loop forever", "unterminated regex literal", comp("find all @/abc"))
fixed("D9b1", ["C08"], "'--' at the very end of the input: Unknown final state", "Unknown final state' when the input ended", comp("find all 'a' --"))
fixed("D9b2", ["C08"], "a lone '!': Unknown final state", "Unknown final state' when the input ended", comp("set f to transform return 1 ! 2 end"))
fixed("D9b3", ["C08", "C16"], "a string ending in a backslash at end of input: Unknown final state", "Unknown final state' when the input ended", comp("find all 'a\\"))
fixed("D9c1", ["C08"], "`return end` indexed an empty token slice", "expression parser indexed past", comp("set f to transform return end"))
fixed("D9c2", ["C08"], "`return (1 end`: nil expression with nil error", "expression parser indexed past", comp("set f to transform return (1 end"))
fixed("D9c3", ["C08"], "`return 1 +` indexed past the token slice", "expression parser indexed past", comp("set f to transform return 1 + end"))
fixed("D24", ["C08"], "`set f to transform return 1 )` (stray ')' ending the last expression of the input) indexed past the token list; found by a seeding sub-agent while probing, missed by the quick tier", "stray ')' ending a process expression", comp("set f to transform return 1 )"))
fixed("D9c4", ["C08"], "`named` without a name returned a nil loop and no error", "`named` without a name", comp("find all at least 1 'a' named"))
fixed("D9d1", ["C08"], "@/a{2/ restarted the regex parser at index 0 (stack overflow)", "regex sub-parser indexed past", comp("find all @/a{2/"))
fixed("D9d2", ["C08"], "@/(/ index out of range", "regex sub-parser indexed past", comp("find all @/(/"))
fixed("D9d3", ["C08"], "@/a|/ index out of range", "regex sub-parser indexed past", comp("find all @/a|/"))
fixed("D9d4", ["C08"], "@/\\/ (trailing backslash) index out of range", "regex sub-parser indexed past", comp("find all @/\\/"))
fixed("D9d5", ["C08"], "@/\\k<a/ and @/(?<n/ and @/[a-/ index out of range", "regex sub-parser indexed past", comp("find all @/\\k<a/ find all @/(?<n/ find all @/[a-/"))
fixed("D9e1", ["C08"], "look-around panicked 'unimplemented'", "unsupported regex features panicked", comp("find all @/(?=a)/"))
fixed("D9e2", ["C08"], "@/[\\d]/ panicked 'PARSE ESCAPE CHARACTER'", "unsupported regex features panicked", comp("find all @/[\\d]/"))
fixed("D10", ["C11"], "1 == 2 was true (number equality compared truthiness)", "`==` and `!=` on numbers",
      {"kind": "expr", "case": {"e": binop("==", num(1), num(2)), "text": "a", "full": True, "form": "transform"}})
fixed("D10b", ["C11"], "matchLength == match on \"a\"", "`==` and `!=` on numbers",
      {"kind": "expr", "case": {"e": binop("!=", num(3), num(4)), "text": "a", "full": True, "form": "predicate"}})
fixed("D11", ["C12"], "loop loop break end break end was rejected", "after a nested loop were rejected",
      {"kind": "typing", "case": {"stmts": [{"k": "loop", "body": [{"k": "loop", "body": [{"k": "break"}]}, {"k": "break"}]}, {"k": "return", "e": strv("x")}], "ctx": 1, "full": True}})
fixed("D12", ["C14"], "@/((a)b)/ bound _1 = a, _2 = ab (groups numbered by closing parenthesis)", "numbered by their closing parenthesis",
      {"kind": "regex", "case": {"regex": "((a)b)", "text": "ab", "want": [{"start": 0, "end": 2, "vars": {"_1": "ab", "_2": "a"}}]}})
fixed("D13a", ["C15"], "a comment after a process expression was a parse error", "comment inside or after a process expression",
      {"kind": "layout", "case": {"orig": "set f to transform return 1 end replace all 'a' with f", "variant": "set f to transform return 1 -- one\n end replace all 'a' with f", "texts": ["aa"]}})
fixed("D13b", ["C15"], "a blank before a comma after a class item ended the in-list", "whitespace before a comma",
      {"kind": "layout", "case": {"orig": "find all in 'a', digit, 'b'", "variant": "find all in 'a', digit , 'b'", "texts": ["a1b"]}})
fixed("D13c", ["C15"], "( ) with a blank inside was a parse error", "whitespace inside an empty group",
      {"kind": "layout", "case": {"orig": "find all 'a' () 'b'", "variant": "find all 'a' ( ) 'b'", "texts": ["ab"]}})
fixed("D14", ["C16"], "'\\xZZ' denoted xZ (unread of two runes)", "incomplete \\x escape",
      {"kind": "literal", "case": {"literal": "'\\xZZ'", "bytes": "xZZ"}})
fixed("D14b", ["C16"], "'\\x4' lost its digit / '\\x' swallowed the closing quote", "incomplete \\x escape",
      {"kind": "literal", "case": {"literal": "'\\x4'", "bytes": "x4"}})
fixed("D15", ["C17", "C18"], "Matches.Json() panicked on every call", "Matches.Json() panicked",
      {"kind": "json", "case": {"src": "find all 'a' = v", "text": "a\"a"}})
fixed("D16", ["C18"], "-json-file could not be written (opened read-only, mode 000)", "could not be written",
      {"kind": "cli", "case": {"program": "find", "json_file": True, "fjson_file": True, "files": "glob", "mode": ""}})
fixed("D17", ["C18"], "ParsePath printed a debug line on standard output before the JSON", "ParsePath printed",
      {"kind": "cli", "case": {"program": "find", "json": True, "files": "one", "mode": ""}})
fixed("D18", ["C19"], "concurrent Compile calls raced on capture_group_number", "raced on the regex capture-group counter",
      {"kind": "concurrent", "case": {"sources": ["find all @/(a)(b)\\2\\1/"], "texts": ["abba"], "jobs": [[{"kind": "compile", "src": 0, "text": 0}] * 6] * 8, "reps": 50}})
fixed("D19", ["C20"], "*b did not list abxb (first-occurrence star matcher)", "only tried the first occurrence",
      {"kind": "tree", "case": {"entries": ["abxb", "a.txt.txt", "b"], "pattern": "*b", "absolute": False}})
fixed("D19b", ["C20"], "*.txt did not list a.txt.txt", "only tried the first occurrence",
      {"kind": "tree", "case": {"entries": ["a.txt.txt", "a.txt", "b"], "pattern": "*.txt", "absolute": False}})
fixed("D20", ["C04"], "skip 1 take 1 'aa' on aaaa returned the overlapping [1,3)", "skipped match advanced the scan",
      {"kind": "window", "case": {"prefix": "", "body": "'aa'", "text": "aaaa", "replace": False}})
fixed("D21", ["C16", "C08"], "backslash + blank in a string literal panicked the lexer", "backslash followed by a blank",
      {"kind": "literal", "case": {"literal": "'a\\ b'", "bytes": "a b"}})
fixed("D22", ["C11"], "true < '12' was true: ordering comparisons with a bool on the left coerced the right operand to a number", "ordering comparisons with a boolean",
      {"kind": "expr", "case": {"e": binop("<", boolv(True), strv("12")), "text": "a", "full": True, "form": "transform"}})
fixed("D23", ["C15"], "an empty line comment `--` swallowed the following line", "empty line comment swallowed",
      {"kind": "layout", "case": {"orig": "find all word start 'a' word end", "variant": "find all word start 'a' word--\nend", "texts": ["a b"]}})

fixed("D25", ["C15"], "a block comment whose text ends in ')-' was never terminated: --( x )-)--; reported by a seeding sub-agent as a pre-existing oddity", "block comment whose text ends in",
      {"kind": "layout", "case": {"orig": "find all 'a' 'b'", "variant": "find all 'a' --( x )-)-- 'b'", "texts": ["ab"]}})
fixed("D26", ["C15"], "whitespace (or a comment) after `find all` with an empty body was a parse error; reported by a seeding sub-agent", "find command with an empty body",
      {"kind": "layout", "case": {"orig": "find all", "variant": "find all\n", "texts": ["ab"]}})
fixed("D27", ["C04"], "skip 1 take 9223372036854775807 returned nothing instead of A[1:]: skip+take overflowed in the scan loop bound; first noticed by a seeding sub-agent reading the code, confirmed by the C04 check once amounts up to the largest integer were generated", "skip s take t with a huge t returned nothing",
      {"kind": "window", "case": {"prefix": "", "body": "'a'", "text": "aaa", "replace": False}})
fixed("D28", ["C13", "C14"], "find all @/(a)\\1/ find all @/(b)\\1/ did not compile (identifier '_1' is not defined): groups are numbered program-wide and \\1 in the second literal meant the first literal's group; found when generated programs began to repeat a body with a regex literal in a second command", "numeric back-reference in a second regexp literal",
      spans("find all @/(a)\\1/ find all @/(b)\\1/", "aa bb", [(0, 2, None), (3, 5, None)]))
fixed("D28b", ["C14"], "two literals in one command: @/(a)/ ' ' @/(b)\\1/ matched 'a ba'", "numeric back-reference in a second regexp literal",
      spans("find all @/(a)/ ' ' @/(b)\\1/", "a bb a ba", [(0, 4, None)]))
fixed("D29", ["C15"], "replace top 3with 'x' (a replace command without a pattern) was accepted, the same tokens with a blank or a comment before `with` were rejected; a round-12 seeding sub-agent noticed it while reading parse_replace, confirmed by the C15 gap enumeration once it wrote a number and a following word without a blank", "replace command without a pattern",
      {"kind": "layout", "case": {"orig": "replace top 3 with 'x'", "variant": "replace top 3with 'x'", "texts": ["ab"]}})
known("K1", ["C09", "C11"], "division / modulo by zero in process code panics (no documented result; needs a language decision)",
      "integer divide by zero", crash("set f to transform return 1 / 0 end replace all 'a' with f", "a"))
known("K2", ["C09", "C12"], "a variable that is boolean on one branch and a number on the other reaches SHOULDN'T GET HERE (the checker keeps the last assigned type)",
      "SHOULDN'T GET HERE", crash("set f to transform if match == 'a' then set x to true else set x to 1 end return x - 1 end replace all any with f", "ab"))
known("K3", ["C08"], "compile cost is proportional to loop bounds (loops are unrolled): exactly 400000 'a' allocates hundreds of MB for a 28-byte source",
      "compile-cost", {"kind": "compile_cost", "case": {"src": "find all exactly 400000 'a'", "max_alloc_mb": 10}})
known("K4", ["C14"], "@/(a)+/ is a compile error (name clash '_1'): a capturing group under a quantifier with min >= 1 is unrolled and declared twice",
      "name clash", {"kind": "accepts", "case": {"src": "find all @/(a)+/"}})
known("K5", ["C14"], "@/(?<n>a)(b)\\1/ matches abb instead of aba: named groups are not counted when numbering groups",
      "span-mismatch", spans("find all @/(?<n>a)(b)\\1/", "aba abb", [(0, 3, None)]))

with open(os.path.join(VERIF, "known_findings.json"), "w") as f:
    json.dump({"note": "see scripts/mkfindings.py; never written at run time", "findings": F}, f, indent=1)
print("known_findings.json:", len(F), "entries")
