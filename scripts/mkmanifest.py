#!/usr/bin/env python3
"""Writes /verif/MANIFEST.json from scripts/checkconf.py and the texts below."""
import json
import os
import sys

HERE = os.path.dirname(os.path.abspath(__file__))
VERIF = os.path.dirname(HERE)
sys.path.insert(0, HERE)
from checkconf import CHECKS  # noqa: E402

TEXT = {
    "C01": ("reference model + differential (Go regexp) property-based testing",
            "A small-scope exhaustive enumeration (4 891 programs x 34 texts; thorough: 126 765 programs), generated (program, text) pairs, and a an enumeration of named loops with minima against the unnamed form; scale part (kB texts, hundreds of matches, loop minima up to 100, a third searched as files), compared with an independent continuation-passing reference matcher and with Go's regexp on the regular subset; exploration, not proof.",
            "trusts the reference semantics of DESIGN.md section 4 (caseless = Unicode simple folding over the literal's byte length, as observed) and Go's regexp; generated programs have IR depth <= 3 on texts <= 14 bytes, the scale part uses 15 fixed bodies"),
    "C02": ("reference model property-based testing of variable bindings",
            "Generated programs biased to captures under alternation / optional loops / calls; the environment of the reference matcher at the successful continuation is compared with Match.Variables.",
            "trusts the reference semantics (persistent environment handed to the continuation)"),
    "C03": ("validity-predicate property-based testing",
            "Every reported match of generated programs (widest generator, a third capture-biased; a scale part with kB texts, a third of them searched as files) is re-derived from the input text alone: slice, order, numbering, line/column, variables are substrings.",
            "ASCII texts for the column claim; trusts only the text-derived recomputation"),
    "C04": ("metamorphic property-based testing (window of one sequence)",
            "For generated (body, text): every amount clause with s,t,n straddling len(A), amounts up to 2^63-1, zero-padded amounts, and (scale part) hundreds of matches with amounts up to 300 are compared field by field with the corresponding slice of `find all`; replace forms carry a transform that reads matchNumber; an enumeration with 513..2600 matches and amounts around 512, 1024, 2048.",
            "`find all` itself is decided by C01; this check only relates clauses to it"),
    "C05": ("model-based property-based testing of replacements",
            "Expected replacement recomputed from the reported match with the harness's own process evaluator; replace vs find differential.",
            "trusts the harness evaluator written from the documented tables"),
    "C06": ("round-trip / splice oracle over generated files and modes",
            "Directory snapshot before/after RunFiles in each mode compared with the splice recomputed from the returned matches; enumerated big files (64 KiB .. 1 MiB); two-command programs and a file listed twice against the same steps in separate calls.",
            "generated files up to ~20 kB, enumerated ones to 1 MiB; local filesystem semantics"),
    "C07": ("stateful model-based testing of the reader + file/string differential",
            "rapid state machine of seek/read histories against the byte slice; RunFiles vs Run on the same bytes around buffer-window multiples, through symbolic links, and on enumerated files of 300 kB .. 3 MiB; a deterministic hang of one isolated case is a violation.",
            "generated files up to ~20 kB (five buffer windows), enumerated ones to 3 MiB"),
    "C08": ("grammar-based and mutation fuzzing with a totality oracle",
            "Valid programs, every prefix, token deletions/duplications/swaps/insertions, token soup, random bytes, regex bodies, non-ASCII look-alikes, every \\xHH escape 00..ff and backslash + byte pair, deep nesting, long operator and definition chains, sources of 4..9 kB: Compile returns exactly one of (program, error) - also when called a second time -, the error prints, no panic, accepted ASTs contain no holes; a deterministic hang of one isolated input is a violation.",
            "inputs <= ~9 kB (native fuzzing <= 300 bytes); loop-bound products <= 4096 (finding K3)"),
    "C09": ("crash-oracle property-based testing over accepted programs",
            "Accepted programs from the widest generator (up to three commands sharing bodies and definitions) and accepted mutants are run on texts, all prefixes, the empty text and files, and find programs over file names (processFilenames); any panic is a violation.",
            "zero divisors (K1) and branch-typed variables (K2) are excluded by construction and probed"),
    "C10": ("bounded exhaustive enumeration + random deepening with a step-count oracle",
            "All programs of a nullable-material grammar (18 atoms, 13 loop heads incl. bounds of 2e9 and 2^63-1, guarded recursion over 22 consuming instructions, two-command programs) to nesting depth 2 plus a sample of depth 3 (thorough: depth 4 complete) on all texts of length <= 3 over {a,b,\\n}; random deeper programs; process code with bounded loops; linear programs on files of 4..12 kB (RunFiles); 20 programs on texts with CR-only / mixed line ends, NUL, BOM, multi-byte and non-UTF-8 bytes: Run stays under an instruction budget orders of magnitude above the observed maximum, and no loop activation / call nesting outgrows the text (progress measures).",
            "uses the verif hook (step counter, progress measures); budget 1e6 instructions in the enumeration (observed maximum 1 568); in the random part only the progress measures decide"),
    "C11": ("exhaustive operator table + type-directed expression generation against a reference evaluator",
            "Every operator x boundary operand pair (incl. numeric strings beyond 32 bits, numerals with white space or a sign around them, non-ASCII strings), and random expression trees rendered with full and minimal parentheses, observed through transforms (called twice per match) and predicates.",
            "trusts the harness evaluator written from LanguageDetails.md"),
    "C12": ("exhaustive typing table + generated statement lists against a reference type checker",
            "Accept/reject verdict of Compile compared with the documented typing rules (operands also as 20-digit number literals); accepted code is run (two transforms per match in the shared-name cases) and must not reach an undefined operation; the same verdict from CompileFile behind a 4200-byte comment.",
            "the cell bool (- * / %) number is left open"),
    "C13": ("metamorphic property-based testing + stateful compile/run histories",
            "Inline, subroutine and set-pattern renderings of the same body (also inside counted loops, in find and replace commands) give identical matches; multi-command sources equal the concatenation, also over several files in one RunFiles call; a definition with a predicate referenced through further patterns; repeated Compile/Run calls, with rejected compiles in between, are stable; a call that never returns when its history is replayed alone is a violation.",
            "capture-free bodies"),
    "C14": ("differential property-based testing against Go regexp and the reference matcher",
            "Generated regex ASTs of the stated subset (a quarter after a rejected compile, some with a same-named definition), regexes of 9..20 groups with every back-reference, and an enumeration of counted quantifiers up to {64} on runs around the bounds: on texts that also hold NUL bytes and, with back-references, multi-byte characters; spans and group bindings vs Go's regexp position by position and vs the reference matcher on the translated IR.",
            "non-nullable loop bodies; texts without \\r \\f \\v; K4/K5 excluded by construction"),
    "C15": ("metamorphic testing over token layouts (exhaustive per gap + random)",
            "Every gap x separator kind (11 kinds incl. CR LF, form feed, comments of both forms) for corpus and generated programs, separators of 4..64 kB and programs shifted across the lexer's buffer boundary, keyword re-casing: same acceptance, DeepEqual AST, same results, also compiled from a file (CompileFile) and through the command-line tool (-com / -src, with and without -debug).",
            "layout function soundness rules of DESIGN.md C15"),
    "C16": ("exhaustive spelling table + random strings against the harness decoder",
            "Every byte 0x00..0x7f in every spelling and quote style, \\x corner cases, raw CR LF, 4 kB literals with every byte of an escape on the buffer boundary; literal value, positive match and near-miss non-matches, from a string and from a file (CompileFile).",
            "ASCII only"),
    "C17": ("round-trip property-based testing of JSON renderings",
            "Json()/FormattedJson() of one- and two-command programs decode with encoding/json, are equal as documents and equal the in-memory matches.",
            "exact string equality only for valid UTF-8"),
    "C18": ("cross-product testing of the built CLI against the library",
            "Flag vectors (13 440 in the thorough tier, 800 sampled in quick) x programs (also with the replace command not first) x file sets x 2 fixtures (control bytes, %, a symbolic link) run as subprocesses of the freshly built binary; exit status, stdout JSON, JSON files (also pre-existing longer ones) and file effects compared with the library run on the files the pattern describes (reference glob).",
            "local filesystem; subprocess of the freshly built binary"),
    "C19": ("randomised concurrent job sets under the race detector with a sequential oracle",
            "Generated goroutine job sets of Compile/Run calls, repeated under -race with GOMAXPROCS in {2,16}, the concurrent repetitions before the sequential reference and in fresh processes; results equal sequential results and no race is reported.",
            "schedules are the Go scheduler's; built without the verif tag"),
    "C20": ("bounded exhaustive enumeration + generated trees against a reference glob",
            "All patterns up to length 5 over {a,b,.,*} x all names up to length 4, generated trees (symbolic links, patterns through links to directories, names with [ ] ? and backslash, non-ASCII names), and directories of 1..4097 entries, against a 10-line recursive glob.",
            "excludes star-only directory segments and ./.. as the property does"),
}

SECTION = {pid: "DESIGN.md section 5, " + pid for pid in TEXT}


def main():
    checks = []
    na = []
    for i in range(1, 21):
        pid = "C%02d" % i
        if pid in CHECKS:
            tech, text, note = TEXT[pid]
            checks.append({
                "property_id": pid,
                "quick_cmd": "./check %s --tier quick" % pid,
                "thorough_cmd": "./check %s --tier thorough" % pid,
                "evidence_file": "/verif/evidence/%s.json" % pid,
                "replay_cmd_template": "./check %s --replay {path}" % pid,
                "engine": "harness",
                "level_claimed": {"category": "exploration", "text": text, "design_ref": SECTION[pid]},
                "level_note": note,
                "technique": tech,
            })
        else:
            na.append({"property_id": pid, "reason": "check not built yet (work in progress; planned in DESIGN.md section 5)"})
    manifest = {
        "version": 1,
        "setup_cmd": "./scripts/setup.sh",
        "hooks": {
            "guard": "verif",
            "enable": "go test -c -tags verif (harness module with replace directives to /repo/libvore/...); the guard adds a VM step counter/limit and an abort flag for a watchdog goroutine in libvore/engine",
            "baseline_off_cmd": "./scripts/baseline_off.sh",
            "source_commits": json.load(open(os.path.join(VERIF, "scripts", "hook_commits.json"))),
            "add_only": True,
        },
        "engines": [
            {"name": "harness", "path": "/verif/harness", "serves_properties": sorted(CHECKS),
             "kind_free_text": "Go test binary (pgregory.net/rapid v1.3.0 generators, bounded enumerations, native fuzz targets) driven by /verif/check"},
        ],
        "checks": checks,
        "notes": "All checks are property-based testing / fuzzing with explicit oracles; see DESIGN.md. known_findings.json lists fixed defects (re-probed on every run) and recorded findings.",
        "not_applicable": na,
    }
    with open(os.path.join(VERIF, "MANIFEST.json"), "w") as f:
        json.dump(manifest, f, indent=1)
    print("MANIFEST.json written: %d checks, %d not claimed" % (len(checks), len(na)))


if __name__ == "__main__":
    main()
