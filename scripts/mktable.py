#!/usr/bin/env python3
"""Regenerates the table of DESIGN.md 3.8 from scripts/checkconf.py and the committed
evidence files (evidence/<ID>.json of a quick run)."""
import json
import os
import re
import sys

VERIF = os.path.dirname(os.path.dirname(os.path.abspath(__file__)))
sys.path.insert(0, os.path.join(VERIF, "scripts"))
from checkconf import CHECKS  # noqa: E402


def num(n):
    return f"{n:,}".replace(",", " ")


rows = []
for pid in sorted(CHECKS):
    ev = json.load(open(os.path.join(VERIF, "evidence", pid + ".json")))
    parts = ev["coverage"].get("parts", {})
    q = "; ".join("%s %s" % (k, num(v["evaluations"])) for k, v in sorted(parts.items()))
    th = []
    for p in CHECKS[pid]["parts"]:
        if p.get("only_tier") == "quick":
            continue
        if "gofuzz" in p:
            th.append("native fuzzing %s (%s)" % (p["gofuzz"], p["fuzztime"]))
            continue
        name = p["test"][len("Test" + pid):] or "main"
        if p.get("rapid", True):
            th.append("%s %s × %d" % (name, num(p["thorough"]), p.get("shards", 1)))
        else:
            th.append("%s (enumeration, %d shards)" % (name, p.get("shards", 1)))
    rows.append("| %s | %s | %d | %s |" % (pid, q, round(ev.get("wall_s", 0)), "; ".join(th)))

path = os.path.join(VERIF, "DESIGN.md")
s = open(path).read()
head = "| id | quick: evaluations per part (evidence of the committed run, seed 1) | ≈ s | thorough: cases per shard × shards |\n|---|---|---|---|\n"
i = s.index(head) + len(head)
j = s.index("\n\n", i)
s = s[:i] + "\n".join(rows) + s[j:]
open(path, "w").write(s)
print("table rows:", len(rows))
