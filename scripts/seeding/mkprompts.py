#!/usr/bin/env python3
"""usage: mkprompts.py <base dir, e.g. /tmp/seed5> <round>
Creates one scratch worktree of /repo per property under <base>/<ID> (branch
seed<round>-<ID>) and writes <base>/<ID>.prompt.md: the text a fresh sub-agent gets -
the base prompt, the property record and the round's emphasis. Nothing from /verif
other than the property text goes in."""
import json
import os
import subprocess
import sys

base, rnd = sys.argv[1], sys.argv[2]
here = os.path.dirname(os.path.abspath(__file__))
prompt = open(os.path.join(here, "PROMPT.base.md")).read()
EMPHASIS = {
    "5": "Produce TWO independent *seeded defects* (call them `a` and `b`, touching different mechanisms / code sites). Both must read like work a maintainer would really do and commit with a harmless-sounding message: a performance optimisation (caching, avoiding a copy or an allocation, reading in bulk, early exit, reusing a buffer or a slice), a readability refactor (merging duplicated code into a helper, replacing a hand-written loop by a standard-library call such as strings.EqualFold / strings.Index / slices.Clone / maps.Clone / sort / bytes / unicode functions, turning an if-chain into a switch or a table), or a generalisation (accepting Unicode where only ASCII was handled, supporting larger inputs). The defect is the subtle behavioural difference the rewrite introduces. Think about where such a rewrite changes behaviour only for: multi-byte UTF-8 text or program source, texts with CR LF line ends, empty strings / empty matches / empty files, values at or just past a capacity (slice growth, buffer size, batch size), aliasing of slices and maps between a snapshot and the running state, the second or later use of something (second match, second command, second Run, second file), and negative / zero / very large numbers in amount clauses and process arithmetic",
    "6": "Produce TWO independent *seeded defects* (call them `a` and `b`, touching different mechanisms / code sites). Assume the property is already guarded by randomized property-based tests that generate small programs and short inputs and compare the results with a reference implementation, and by the project's own unit tests. Choose defects such testing is UNLIKELY to trigger, yet that real users of the tool would meet sooner or later. Directions: behaviour that only differs at scale (long lines, many lines, thousands of matches, deep nesting, long literals, many alternatives, large numbers in amount clauses or loop bounds, big files, many files); rarely written but documented syntax and its combinations; particular byte values (NUL, DEL, 0x80-0xFF, multi-byte UTF-8, CR without LF, form feed); the environment (file without trailing newline, empty file, read-only or missing file, directory where a file is expected, symbolic links, relative vs absolute paths, pre-existing output files); the same compiled program or the same process used for a long time (hundreds of Run calls, many compiles, alternating programs); and values that sit exactly on a power of two or a buffer size. At least one of the two must live outside the function the property's anchors name first",
    "7": "Produce TWO independent *seeded defects* (call them `a` and `b`, touching different mechanisms / code sites). Look at how programs are *structured* and how the library is *used*, rather than at single matching steps: programs with many commands and many definitions, unused definitions, definitions that reference other definitions, a capture or subroutine or loop name that equals a definition's name or a built-in's name (value, match, matchNumber, startOffset ...) or differs from a keyword only by a suffix (`orb`, `inx`, `ender`, `digits`), the same name in two commands, comments and line breaks in unusual places; the less used entry points and results (CompileFile, RunFiles with several files or the same file twice, the processFilenames argument, Matches.Json / FormattedJson on empty and on large results, Match fields of replace commands); the order of operations across calls (compile A, compile B, run A, run B, run A again; a failed compile in between; a run that panicked and was recovered in between); inputs that are empty, a single byte, only line breaks, or one very long line. The defect should leave the common single-command, single-call use intact. At least one of the two must live outside the function the property's anchors name first",
    "8": "Produce TWO independent *seeded defects* (call them `a` and `b`, touching different mechanisms / code sites). Read the property's statement clause by clause. For each defect pick ONE clause (or one word of the quantifier) and break only that clause, on an input class that needs a conjunction of at least THREE conditions at once - for example: (a lazy loop) AND (inside an alternation that is not the first alternative) AND (at the end of the input); (a replace command) AND (an amount clause that skips matches) AND (a match spanning a line break); (a named loop) AND (a second match in the same text) AND (a capture that stayed empty); (a file larger than the read buffer) AND (mode OVERWRITE) AND (a replacement longer than the match). Small inputs are fine - the point is the conjunction, not the size. Everything outside the conjunction, including each pair of the three conditions, must keep working. State the three conditions explicitly in meta.json under \"needs\". At least one of the two must live outside the function the property's anchors name first",
}
os.makedirs(base, exist_ok=True)
for line in open("/verif/properties.jsonl"):
    p = json.loads(line)
    pid = p["id"]
    wt = os.path.join(base, pid)
    if not os.path.isdir(wt):
        subprocess.check_call(["git", "-C", "/repo", "worktree", "add", "-q", "-b", "seed%s-%s" % (rnd, pid), wt, "HEAD"])
    rec = json.dumps({k: p[k] for k in ("id", "title", "statement", "quantifier", "why_tests_cant", "anchors")}, indent=1)
    t = prompt.replace("WORKTREE", wt).replace("PROPERTY_JSON", rec)
    t = t.replace("Produce TWO independent *seeded defects* (call them `a` and `b`, touching different mechanisms / code sites)", EMPHASIS[rnd])
    t = t.replace("## Deliverables", "Before anything else create the file seed_out/go.mod containing the single line `module seedout` so that the root module's `go test ./...` skips seed_out/. If a demo is a shell script it must run with `bash`.\n\n## Deliverables")
    open(os.path.join(base, pid + ".prompt.md"), "w").write(t)
print("prompts written to", base)
