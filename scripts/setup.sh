#!/bin/bash
# Offline warm build of the harness (both tag sets) against /repo's current tree.
set -e
export GOFLAGS=-mod=mod GOWORK=off GOPROXY=off GOSUMDB=off GOTOOLCHAIN=local
cd /verif/harness
tmp=$(mktemp -d)
trap 'rm -rf "$tmp"' EXIT
go test -c -tags verif -o "$tmp/props.test" ./props
go test -c -race -o "$tmp/props.race.test" ./props
(cd /repo && env -u GOWORK GOFLAGS= go build -o "$tmp/vore" .)
echo setup ok
