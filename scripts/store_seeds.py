#!/usr/bin/env python3
"""usage: store_seeds.py <seedbase> <round> <letters, e.g. gh> [IDs...]
Copies confirmed seeded changes <seedbase>/<ID>/seed_out/{a,b} to
/verif/seeded/<ID><letter>/ and adds round / confirmation metadata."""
import json
import os
import shutil
import sys

base, rnd, letters = sys.argv[1], int(sys.argv[2]), sys.argv[3]
ids = sys.argv[4:] or ["C%02d" % i for i in range(1, 21)]
VERIF = os.path.dirname(os.path.dirname(os.path.abspath(__file__)))
n = 0
for pid in ids:
    for src, letter in zip("ab", letters):
        sd = os.path.join(base, pid, "seed_out", src)
        if not os.path.isfile(os.path.join(sd, "patch.diff")):
            print("missing", sd)
            continue
        dst = os.path.join(VERIF, "seeded", pid + letter)
        os.makedirs(dst, exist_ok=True)
        for f in os.listdir(sd):
            if f in ("patch.diff", "demo_test.go", "demo.sh", "meta.json"):
                shutil.copy(os.path.join(sd, f), os.path.join(dst, f))
        mp = os.path.join(dst, "meta.json")
        try:
            meta = json.load(open(mp))
        except Exception:
            meta = {}
        meta["property"] = pid
        meta["variant"] = letter
        meta["round"] = rnd
        meta["confirmed_by_me"] = {
            "how": "SEEDBASE=%s scripts/confirm_seed.sh %s <a|b> in the agent's scratch worktree reset to /repo main: patch applies, 9-module suite passes and CLI builds with the patch, demo fails with the patch and passes without it" % (base, pid),
            "result": "confirmed",
        }
        json.dump(meta, open(mp, "w"), indent=1)
        n += 1
print("stored", n)
