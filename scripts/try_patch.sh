#!/bin/bash
# usage: try_patch.sh <patch.diff | REV:<commit>> <tier> <ID>...
# Evaluates a change WITHOUT touching /repo: a scratch copy of /repo's committed tree
# gets the change, the given checks run against that copy (VERIF_ALT_REPO) with a
# private evidence directory, and the copy is removed. Safe to run in parallel with
# other checks.
set -u
what=$1; tier=$2; shift 2
alt=$(mktemp -d /tmp/altrepo.XXXXXX)
ev=$(mktemp -d /tmp/altev.XXXXXX)
cleanup() { rm -rf "$alt" "$ev"; }
trap cleanup EXIT
git -C /repo archive HEAD | tar -x -C "$alt" || exit 2
if [[ "$what" == REV:* ]]; then
  rm -rf "$alt"/* ; git -C /repo archive "${what#REV:}" | tar -x -C "$alt" || exit 2
else
  (cd "$alt" && git init -q . && git apply "$what") || { echo "patch does not apply"; exit 2; }
fi
cd /verif
for id in "$@"; do
  out=$(VERIF_ALT_REPO="$alt" VERIF_EVIDENCE_DIR="$ev" ./check "$id" --tier "$tier" 2>&1); rc=$?
  echo "== $id rc=$rc :: $(echo "$out" | grep -E 'VIOLATION|INCONCLUSIVE|OK property|BUILD FAILED' | head -3 | tr '\n' ' ')"
  echo "$out" | grep -B1 VIOLATION | grep -v VIOLATION | head -2 | cut -c1-400
done
