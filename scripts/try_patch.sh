#!/bin/bash
# usage: try_patch.sh <patch.diff | REV:<commit>> <tier> <ID>...
# applies a change to /repo's working tree, runs the given checks, and always reverts.
set -u
what=$1; tier=$2; shift 2
cd /repo || exit 2
if [ -n "$(git status --porcelain)" ]; then echo "/repo is dirty"; exit 2; fi
# evidence files describe runs on the unchanged tree: keep the committed ones
evbak=$(mktemp -d)
cp -a /verif/evidence/. "$evbak"/ 2>/dev/null
restore() { git -C /repo checkout -q HEAD -- . ; git -C /repo clean -fdq; cp -a "$evbak"/. /verif/evidence/ 2>/dev/null; rm -rf "$evbak"; }
trap restore EXIT
if [[ "$what" == REV:* ]]; then
  git checkout -q "${what#REV:}" -- . || exit 2
else
  git apply "$what" || { echo "patch does not apply"; exit 2; }
fi
cd /verif
for id in "$@"; do
  out=$(./check "$id" --tier "$tier" 2>&1); rc=$?
  echo "== $id rc=$rc :: $(echo "$out" | grep -E 'VIOLATION|INCONCLUSIVE|OK property|BUILD FAILED' | head -3 | tr '\n' ' ')"
  echo "$out" | grep -B1 VIOLATION | grep -v VIOLATION | head -2 | cut -c1-400
done
