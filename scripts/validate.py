#!/opt/veriftools/pyvenv/bin/python
import json,jsonschema,glob,sys
m=json.load(open('/verif/MANIFEST.json'));s=json.load(open('/root/.vp/MANIFEST.schema.json'))
jsonschema.validate(m,s);print('manifest valid')
s=json.load(open('/root/.vp/EVIDENCE.schema.json'))
for f in sorted(glob.glob('/verif/evidence/*.json')):
    jsonschema.validate(json.load(open(f)),s)
print('evidence valid:', len(glob.glob('/verif/evidence/*.json')))
